#!/bin/sh
# Runs the thorough tier of the given checks (default: all) one after the other; meant for `vp run -- tools/run_thorough.sh`.
cd "$(dirname "$0")/.."
mkdir -p /tmp/ev-thorough3
for c in ${@:-C01 C02 C03 C04 C05 C06 C07 C08 C09 C10 C11 C12 C13 C14 C15 C16 C17 C18 C19 C20}; do
  start=$(date +%s)
  VERIF_EVIDENCE_DIR=/tmp/ev-thorough3 ./check $c --tier thorough > /tmp/thorough3-$c.log 2>&1
  echo "$c rc=$? $(( $(date +%s) - start ))s $(tail -1 /tmp/thorough3-$c.log | cut -c1-220)"
done

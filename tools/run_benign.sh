#!/bin/sh
# Runs every behaviour-preserving refactoring under /tmp/wt3/<group>/out/bK through all checks; none may raise an alarm.
cd "$(dirname "$0")/.."
export VERIF_SEEDED_DIR=${VERIF_SEEDED_DIR:-/verif/seeded}
./check setup > /dev/null 2>&1
for g in $(ls /tmp/wt3 | grep -v prompt | grep -v agent); do for b in b1 b2 b3; do
  [ -d /tmp/wt3/$g/out/$b ] || continue
  id=benign-$g-$b
  # (BENIGN_SINCE=<file>: run again unless the stored result is newer than that file)
  if [ -f $VERIF_SEEDED_DIR/$id/meta.json ]; then
    [ -z "$BENIGN_SINCE" ] && continue
    [ $VERIF_SEEDED_DIR/$id/meta.json -nt "$BENIGN_SINCE" ] && continue
  fi
  case "$BENIGN_GROUPS$g" in
    1exporters) cs=--checks=C10,C11,C12,C13 ;;
    1importers) cs=--checks=C10,C11 ;;
    1iterators) cs=--checks=C05,C06,C09,C12,C14,C17 ;;
    1nodes) cs=--checks=C01,C02,C03,C04,C16,C17,C18,C19,C20 ;;
    1render) cs=--checks=C09 ;;
    1resolver) cs=--checks=C07,C08,C17 ;;
    1search) cs=--checks=C14,C17 ;;
    1symlink) cs=--checks=C19,C20,C01 ;;
    1util) cs=--checks=C04,C05,C17,C18,C01 ;;
    1walker) cs=--checks=C15,C17 ;;
    *) cs= ;;
  esac
  /venv/bin/python -m harness.benigntool /tmp/wt3/$g /tmp/wt3/$g/out/$b $id $cs 2>&1 | grep "^benign\|^   C"
done; done

#!/bin/sh
# Runs every behaviour-preserving refactoring under /tmp/wt3/<group>/out/bK through all checks; none may raise an alarm.
cd "$(dirname "$0")/.."
export VERIF_SEEDED_DIR=${VERIF_SEEDED_DIR:-/verif/seeded}
./check setup > /dev/null 2>&1
for g in $(ls /tmp/wt3 | grep -v prompt | grep -v agent); do for b in b1 b2 b3; do
  [ -d /tmp/wt3/$g/out/$b ] || continue
  id=benign-$g-$b
  # (BENIGN_SINCE=<file>: run again unless the stored result is newer than that file)
  if [ -f $VERIF_SEEDED_DIR/$id/meta.json ]; then
    [ -z "$BENIGN_SINCE" ] && continue
    [ $VERIF_SEEDED_DIR/$id/meta.json -nt "$BENIGN_SINCE" ] && continue
  fi
  /venv/bin/python -m harness.benigntool /tmp/wt3/$g /tmp/wt3/$g/out/$b $id 2>&1 | grep "^benign\|^   C"
done; done

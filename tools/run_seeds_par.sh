#!/bin/sh
# Like run_seeds_group.sh, but several mutants at a time.  usage: run_seeds_par.sh <root> <tag> [jobs]
cd "$(dirname "$0")/.."
export VERIF_SEEDED_DIR=${VERIF_SEEDED_DIR:-/verif/seeded}
root=$1; tag=$2; jobs=${3:-4}
group() {
  case $1 in
    C01|C02|C03|C16|C18) echo C01,C02,C03,C16,C17,C18,C19,C20 ;;
    C04|C05|C06|C14|C15) echo C04,C05,C06,C14,C15,C17,C18,C09 ;;
    C07|C08) echo C07,C08,C17 ;;
    C09) echo C09,C05,C17 ;;
    C10|C11|C12|C13) echo C10,C11,C12,C13,C05,C17 ;;
    C17) echo C04,C05,C07,C08,C14,C15,C17,C18,C01 ;;
    C19|C20) echo C19,C20,C01,C16,C18 ;;
  esac
}
for p in $(ls $root | grep '^C[0-9][0-9]$'); do for m in m1 m2; do
  [ -d $root/$p/out/$m ] || continue
  id=$tag-$p-$m
  [ -f $VERIF_SEEDED_DIR/$id/meta.json ] && continue
  echo "$root/$p $root/$p/out/$m $id --checks=$(group $p)"
done; done | xargs -P $jobs -L 1 sh -c '/venv/bin/python -m harness.seedtool "$0" "$1" "$2" "$3" > /tmp/seedlog-$2.txt 2>&1; grep "^seed\|NOT CONF" /tmp/seedlog-$2.txt'

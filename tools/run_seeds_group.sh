#!/bin/sh
# Like run_seeds.sh, but every mutant is run only through the checks of the module family its property belongs to
# (plus C17/C18, which overlay every module).  usage: run_seeds_group.sh <root> <tag>
cd "$(dirname "$0")/.."
export VERIF_SEEDED_DIR=${VERIF_SEEDED_DIR:-/verif/seeded}
./check setup > /dev/null 2>&1
root=$1; tag=$2
group() {
  case $1 in
    C01|C02|C03|C16|C18) echo C01,C02,C03,C16,C17,C18,C19,C20 ;;
    C04|C05|C06|C14|C15) echo C04,C05,C06,C14,C15,C17,C18,C09 ;;
    C07|C08) echo C07,C08,C17 ;;
    C09) echo C09,C05,C17 ;;
    C10|C11|C12|C13) echo C10,C11,C12,C13,C05,C17 ;;
    C17) echo C04,C05,C07,C08,C14,C15,C17,C18,C01 ;;
    C19|C20) echo C19,C20,C01,C16,C18 ;;
  esac
}
for p in $(ls $root | grep '^C[0-9][0-9]$'); do for m in m1 m2; do
  [ -d $root/$p/out/$m ] || continue
  id=$tag-$p-$m
  [ -f $VERIF_SEEDED_DIR/$id/meta.json ] && continue
  /venv/bin/python -m harness.seedtool $root/$p $root/$p/out/$m $id --checks=$(group $p) > /tmp/seedlog-$id.txt 2>&1
  grep "^seed\|NOT CONF" /tmp/seedlog-$id.txt
done; done

#!/bin/sh
# Runs every sub-agent mutant found under the given roots (default /tmp/wt /tmp/wt2) through harness.seedtool
# (confirm, then the full check matrix) and stores the results under <this verif dir>/seeded/.
# Meant for `vp run -- tools/run_seeds.sh` (a snapshot of the committed /verif, so that edits do not disturb it).
cd "$(dirname "$0")/.."
# results are kept outside the snapshot (which is removed when the run is stopped)
export VERIF_SEEDED_DIR=${VERIF_SEEDED_DIR:-/verif/seeded}
./check setup > /dev/null 2>&1
roots="${@:-/tmp/wt /tmp/wt2}"
for root in $roots; do
  tag=$(basename $root | sed 's/^wt$/r1/; s/^wt2$/r2/')
  for p in $(ls $root | grep '^C[0-9][0-9]$'); do for m in m1 m2; do
    [ -d $root/$p/out/$m ] || continue
    id=$tag-$p-$m
    [ -f $VERIF_SEEDED_DIR/$id/meta.json ] && continue
    /venv/bin/python -m harness.seedtool $root/$p $root/$p/out/$m $id > /tmp/seedlog-$id.txt 2>&1
    grep "^seed\|NOT CONF" /tmp/seedlog-$id.txt
  done; done
done

#!/bin/sh
# The quick tier of every check under other values of VERIF_SEED (drivers, samples and drawn instances change): no alarm may appear.
cd "$(dirname "$0")/.."
for s in ${@:-2 3}; do
  VERIF_SEED=$s VERIF_EVIDENCE_DIR=/tmp/ev-seed$s ./check C01,C02,C03,C04,C05,C06,C07,C08,C09,C10,C11,C12,C13,C14,C15,C16,C17,C18,C19,C20 > /tmp/seed-sweep-$s.log 2>&1
  echo "seed $s: $(grep -c '^RESULT.*rc=0' /tmp/seed-sweep-$s.log) of 20 rc=0; $(grep '^RESULT' /tmp/seed-sweep-$s.log | grep -v 'rc=0' | tr '\n' ' ')"
done

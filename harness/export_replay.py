"""Spec -> code for the exporters / importers (M5: C10 C11 C12 C13)."""
import copy
import io
import json
import os
import re
import sys
import tempfile
import warnings
from collections import OrderedDict

from . import core
from .query_replay import L, NOMAX, forest_of

BOOKKEEPING = re.compile(r"^_\w*NodeMixin__")      # name-mangled private attributes of the mixins
SHARED = [1, {"k": [2.5, None, True]}]
VPOOL = ["éü\n\t\"q\\ \x01", 3.25, [1, [2, {"z": None}]], {"k": "v", "n": [1, 2]}, True, -0.0, 1e308, "", 0,
         "\U0001F600 astral", [], {}, -17, "plain", "line\u2028sep \u2029para \u0085nel \r\n", {"nested \u2028": ["a \u0085 ", 1]}]


_REFNODE = []
SALT = [0]


def value_of(tok):
    if tok == "ref":
        # an attribute whose value is itself a tree node (a cross reference): plain data for the dictionary exporter
        if not _REFNODE:
            from anytree import AnyNode

            _REFNODE.append(AnyNode(id="referenced"))
        return _REFNODE[0]
    if tok == "x":
        return 42
    if tok == "s":
        return None
    if tok == "same":
        return SHARED
    if tok.startswith("v"):
        i = int(tok[1:])
        base = VPOOL[(i + SALT[0]) % len(VPOOL)]       # the pool rotates with the vector index
        # (more tokens than pool entries -- large trees: later rounds wrap the pool entry, so that tokens stay distinguishable)
        return base if i < len(VPOOL) else _wrapped(i, base)
    return tok          # "n<i>": the string itself


_WRAP = {}


def _wrapped(i, base):
    key = (i, SALT[0] % len(VPOOL))
    if key not in _WRAP:
        _WRAP[key] = [base, i // len(VPOOL)]
    return _WRAP[key]


def token_of(val, candidates):
    """Inverse of value_of restricted to the tokens that occur in the vector (identity first, then typed equality)."""
    for t in candidates:
        v = value_of(t)
        if v is val:
            return t
    for t in candidates:
        v = value_of(t)
        if type(v) is type(val) and v == val and repr(v) == repr(val):
            return t
    return "?"


def attrs_labels(attrs, k):
    if isinstance(attrs, dict):
        attrs = [attrs[str(i + 1)] for i in range(k)]
    return {L(i + 1): [tuple(kv) for kv in a] for i, a in enumerate(attrs)}


def render_dict(d, dictcls=dict):
    out = dictcls((k, value_of(v)) for k, v in d["pairs"])
    if d["children"]:
        out["children"] = [render_dict(c, dictcls) for c in d["children"]]
    return out


def derender_dict(d, cands):
    if not isinstance(d, dict):
        return {"pairs": [["?", "?"]], "children": []}
    kids = d.get("children", [])
    # ck: whether the dictionary carries a 'children' entry at all ("present only when non-empty")
    return {"pairs": [[k, token_of(v, cands)] for k, v in d.items() if k != "children"], "ck": "children" in d,
            "children": [derender_dict(c, cands) for c in kids] if isinstance(kids, list) else [{"pairs": [["?", "?"]], "children": []}]}


def flatten_d(d, lv=0, out=None):
    """Nested token dictionary -> pre-order list of entries [lv, pairs, nk, ck] (iteratively: dictionaries can be hundreds of levels deep)."""
    out = []
    stack = [(d, 0)]
    while stack:
        x, lv = stack.pop()
        out.append({"lv": lv, "pairs": x["pairs"], "nk": len(x["children"]), "ck": bool(x.get("ck", len(x["children"]) > 0))})
        for c in reversed(x["children"]):
            stack.append((c, lv + 1))
    return out


def norm_dict(d):
    """pairs order is only meaningful under attriter=sorted: compare pairs as sorted lists otherwise."""
    return {"pairs": sorted(map(list, d["pairs"])), "children": [norm_dict(c) for c in d["children"]]}


def all_tokens(attrs):
    return sorted({v for a in attrs.values() for _, v in a})


# ------------------------------------------------------------------------------------------------------------ families
def make_nodes(family, par, ch, attrs):
    from . import nodes as N
    from anytree import AnyNode, Node

    N.new_universe()
    N.Ctx.log = None
    for lbl in par:
        pairs = attrs[lbl]
        kw = OrderedDict((k, value_of(v)) for k, v in pairs)
        if family == "anynode":
            o = AnyNode(**kw)
        elif family == "node":
            name = kw.pop("name")
            o = Node(name, **kw)
        else:
            o = N.UserAttrs(**kw)
        N.register(o, lbl)
    for pp, kids in ch.items():
        for c in kids:
            N.Ctx.objs[c].parent = N.Ctx.objs[pp]
    return N.Ctx.objs


def families_for(attrs):
    fams = ["anynode", "user"]
    if all(any(k == "name" for k, _ in a) for a in attrs.values()):
        fams.append("node")
    return fams


def state_of(objs):
    from . import nodes as N

    return (N.snapshot(), {l: [(k, id(v)) for k, v in o.__dict__.items()] for l, o in objs.items()})


def project_import(root, cands):
    """Pre-order numbering of an imported tree: parent array and attribute pairs per node (token space)."""
    order = []
    parents = []

    def walk(n, pidx):
        order.append(n)
        me = len(order)
        parents.append(pidx)
        for c in n.children:
            walk(c, me)

    walk(root, 0)
    attrs = []
    for n in order:
        attrs.append(sorted([k, token_of(v, cands)] for k, v in n.__dict__.items() if not BOOKKEEPING.match(k)))
    return {"p": parents, "attrs": attrs, "classes": sorted({type(n).__name__ for n in order})}


JSON_KW = ({}, {"indent": 2}, {"sort_keys": True}, {"ensure_ascii": False}, {"separators": (",", ":")},
           {"indent": 1, "sort_keys": True, "ensure_ascii": False}, {"indent": None, "separators": (", ", ": ")}, {"indent": None},
           {"indent": 0}, {"sort_keys": False, "ensure_ascii": True, "indent": 4})


def perform_dict(q, par, ch, idx):
    from . import nodes as N
    from anytree import AnyNode, Node
    from anytree.exporter import DictExporter, JsonExporter
    from anytree.importer import DictImporter, JsonImporter

    SALT[0] = idx * 3
    attrs = q["attrs"]
    cands = all_tokens(attrs)
    o = q["o"]
    lab = N.label
    bad = []
    n = 0
    hide = set(o["ci"]["hide"])
    attriter = {"none": None, "sorted": lambda a: sorted(a, key=lambda item: item[0]),
                "public": lambda a: [(k, v) for k, v in a if not k.startswith("_")]}[o["attriter"]]
    # eager and lazy forms of the same child iteration (a lazy result is truthy even when it yields nothing)
    lazy = idx % 2 == 1
    childiter = {"list": iter if lazy else list,
                 "reversed": reversed if lazy else (lambda c: list(reversed(c))),
                 "filter": (lambda c: (x for x in c if lab(x) not in hide)) if lazy else (lambda c: [x for x in c if lab(x) not in hide])}[o["ci"]["kind"]]
    ml = None if o["ml"] == NOMAX else o["ml"]
    jml = None if q["jml"] == NOMAX else q["jml"]
    dictcls = OrderedDict if idx % 2 else dict
    exp = q["d"]
    jsonable = "ref" not in cands
    for family in families_for(attrs):
        objs = make_nodes(family, par, ch, attrs)
        if N.snapshot() != (par, ch):
            return {"build_failed": True}
        before = state_of(objs)
        start = objs[q["s"]]
        # ---- DictExporter
        n += 1
        try:
            got = DictExporter(dictcls=dictcls, attriter=attriter, childiter=childiter, maxlevel=ml).export(start)
            obs = derender_dict(got, cands)
            ok = norm_dict(obs) == norm_dict(exp) and got == render_dict(exp)
            if ok and o["attriter"] == "sorted":
                ok = obs["pairs"] == [list(x) for x in exp["pairs"]] and _sorted_everywhere(got)
            if ok and not _types_ok(got, dictcls):
                ok = False
            if not ok:
                bad.append({"what": "DictExporter.export", "family": family, "prop": "C10", "obs_d": obs})
        except Exception as e:  # noqa
            bad.append({"what": "DictExporter.export", "family": family, "prop": "C10", "raised": "%s: %s" % (type(e).__name__, str(e)[:200])})
        if state_of(objs) != before:
            bad.append({"what": "export modified the tree", "family": family, "prop": "C10", "direct": True})
        # ---- JsonExporter (same tree): the text is exactly dumps(dictionary) under the keyword options
        if not jsonable:
            continue
        if family != "node":      # Node stores `name` last in its __dict__: text order differs from the token order, covered by sort_keys below
            kw = JSON_KW[idx % len(JSON_KW)]
        else:
            kw = {"sort_keys": True}
        n += 1
        try:
            dex = None if (o == _default_opts(o) and idx % 3 == 0) else DictExporter(dictcls=dictcls, attriter=attriter, childiter=childiter, maxlevel=ml)
            jexp = q["jd"] if dex is not None else q["jd_default"]
            text = JsonExporter(dictexporter=dex, maxlevel=jml, **kw).export(start)
            # C11: "exactly the json.dumps serialisation of the dictionary DictExporter produces for that node and maxlevel":
            # relative to the real exporter's dictionary (whose correctness is C10's business), under the effective maxlevel
            eff_ml = jml if jml is not None else (ml if dex is not None else None)
            ref = (DictExporter(dictcls=dictcls, attriter=attriter, childiter=childiter, maxlevel=eff_ml) if dex is not None
                   else DictExporter(maxlevel=eff_ml)).export(start)
            exp_text = json.dumps(ref, **kw)
            buf = io.StringIO()
            dex2 = None if dex is None else DictExporter(dictcls=dictcls, attriter=attriter, childiter=childiter, maxlevel=ml)
            JsonExporter(dictexporter=dex2, maxlevel=jml, **kw).write(start, buf)
            if text != exp_text or buf.getvalue() != exp_text:
                try:
                    obs = derender_dict(json.loads(text), cands)
                except Exception:  # noqa
                    obs = {"pairs": [["?", "?"]], "children": []}
                bad.append({"what": "JsonExporter.export/write", "family": family, "prop": "C11", "kw": repr(kw), "obs_d": obs, "jexp": jexp,
                            "text": text[:300], "expected_text": exp_text[:300], "write_differs": buf.getvalue() != text})
            else:
                # ---- JsonImporter: same shape, order and values
                n += 1
                for how in ("import_", "read", "import_ again"):
                    imp = JsonImporter() if idx % 2 else JsonImporter(dictimporter=DictImporter(nodecls=N.UserAttrs))
                    if how == "read":
                        # read() parses from the current position of the handle (here: behind a header line)
                        fh = io.StringIO("# header, not JSON\n" + text)
                        fh.readline()
                        root = imp.read(fh)
                    else:
                        root = imp.import_(text)
                    if how == "import_":
                        # every import is independent: values of an imported tree may be modified in place afterwards
                        stack = [root]
                        while stack:
                            x = stack.pop()
                            stack.extend(x.children)
                            for v in list(x.__dict__.values()):
                                if isinstance(v, list):
                                    v.append("mutated-after-import")
                                elif isinstance(v, dict):
                                    v["mutated-after-import"] = True
                        continue
                    proj = project_import(root, cands)
                    want = _import_expect(jexp)
                    if proj["p"] != want["p"] or proj["attrs"] != want["attrs"] or proj["classes"] != ["AnyNode" if idx % 2 else "UserAttrs"]:
                        bad.append({"what": "JsonImporter." + how, "family": family, "prop": "C11", "obs_imp": proj, "d": jexp})
        except Exception as e:  # noqa
            bad.append({"what": "JsonExporter/JsonImporter", "family": family, "prop": "C11", "raised": "%s: %s" % (type(e).__name__, str(e)[:200])})
        if state_of(objs) != before:
            bad.append({"what": "json export modified the tree", "family": family, "prop": "C11", "direct": True})
    # ---- DictImporter on the exported dictionary
    data_names = _all_have_name(exp)
    for nodecls_name in ("AnyNode", "UserAttrs", "Adv_falsy_mixin", "Adv_zerolen_mixin") + (("Node",) if data_names else ()):
        nodecls = {"AnyNode": AnyNode, "Node": Node, "UserAttrs": N.UserAttrs, "Adv_falsy_mixin": N.Adv_falsy_mixin,
                   "Adv_zerolen_mixin": N.Adv_zerolen_mixin}[nodecls_name]
        data = render_dict(exp, dictcls)
        keep = derender_dict(data, cands)       # (token space: a deep copy would replace node-valued attributes by other objects)
        keep_types = _types_of(data)
        n += 1
        try:
            root = DictImporter(nodecls=nodecls).import_(data)
            proj = project_import(root, cands)
            want = _import_expect(exp)
            if proj["p"] != want["p"] or proj["attrs"] != want["attrs"] or proj["classes"] != [nodecls_name]:
                bad.append({"what": "DictImporter.import_", "nodecls": nodecls_name, "prop": "C10", "obs_imp": proj, "d": exp})
            if derender_dict(data, cands) != keep or _types_of(data) != keep_types:
                bad.append({"what": "import_ modified its argument", "nodecls": nodecls_name, "prop": "C10", "direct": True})
            back = DictExporter().export(root)
            if norm_dict(derender_dict(back, cands)) != norm_dict(exp):
                bad.append({"what": "export(import_(d)) != d", "nodecls": nodecls_name, "prop": "C10", "obs_d": derender_dict(back, cands)})
        except Exception as e:  # noqa
            bad.append({"what": "DictImporter.import_", "nodecls": nodecls_name, "prop": "C10", "raised": "%s: %s" % (type(e).__name__, str(e)[:200])})
    return {"n": n, "bad": bad}


def _default_opts(o):
    d = dict(o)
    d.update(attriter="none", ml=NOMAX)
    d["ci"] = dict(o["ci"], kind="list", hide=[])
    return d


def _sorted_everywhere(d):
    keys = [k for k in d.keys() if k != "children"]
    return keys == sorted(keys) and all(_sorted_everywhere(c) for c in d.get("children", []))


def _types_ok(d, dictcls):
    return type(d) is dictcls and all(_types_ok(c, dictcls) for c in d.get("children", []))


def _types_of(d):
    return (type(d).__name__, [_types_of(c) for c in d.get("children", [])] if isinstance(d, dict) and isinstance(d.get("children", []), list) else None)


def _all_have_name(d):
    return any(k == "name" for k, _ in d["pairs"]) and all(_all_have_name(c) for c in d["children"])


def _import_expect(d):
    """The emitted ImportDef, recomputed from the emitted dictionary for sub-dictionaries (JSON variants): transport only --
    pre-order numbering of the nested lists."""
    p, attrs = [], []

    def walk(x, pidx):
        p.append(pidx)
        me = len(p)
        attrs.append(sorted([k, v] for k, v in x["pairs"]))
        for c in x["children"]:
            walk(c, me)

    walk(d, 0)
    return {"p": p, "attrs": attrs}


# ------------------------------------------------------------------------------------------------------------- graphs
CHARMAP = {"E": "é"}


class StrLike:
    """A name that is not a str (the exporters convert names with str())."""

    def __init__(self, text):
        self.text = text

    def __str__(self):
        return self.text


def name_str(chars):
    return "".join(CHARMAP.get(c, c) for c in chars)


RE_DOT_NODE = re.compile(r'^( *)"((?:[^"\\]|\\.)*)"( \[.*\])?;$')
RE_DOT_EDGE = re.compile(r'^( *)"((?:[^"\\]|\\.)*)" (\S+) "((?:[^"\\]|\\.)*)"( \[.*\])?;$')
RE_MM_NODE = re.compile(r'^( *)(\w+)(\[.*\])$')
RE_MM_EDGE = re.compile(r'^( *)(\w+)(-->)(\w+)$')


def graph_lines(kind, tok, ids, labels, opts):
    """Trusted renderer: line tokens -> text, for DotExporter / UniqueDotExporter / MermaidExporter."""
    ind = " " * opts["indent"]
    out = []
    if kind == "mermaid":
        out.append("%s %s" % (opts["graph"], opts["name"]))
    else:
        out.append("%s %s {" % (opts["graph"], opts["name"]))
    for o in opts["options"] or []:
        out.append("%s%s" % (ind, o))
    for n in tok["nodes"]:
        if kind == "mermaid":
            out.append("%s%s%s" % (ind, ids[n], opts["nodefunc"](n, labels)))
        else:
            a = opts["nodeattr"](n, labels)
            out.append('%s"%s"%s;' % (ind, ids[n], " [%s]" % a if a is not None else ""))
    for a, b in tok["edges"]:
        if kind == "mermaid":
            out.append("%s%s%s%s" % (ind, ids[a], opts["edgefunc"](a, b), ids[b]))
        else:
            ea = opts["edgeattr"](a, b)
            out.append('%s"%s" %s "%s"%s;' % (ind, ids[a], opts["edgetype"](a, b), ids[b], " [%s]" % ea if ea is not None else ""))
    if kind != "mermaid":
        out.append("}")
    return out


def first_occurrence_ids(tok, fmt):
    ids = {}
    for n in list(tok["nodes"]) + [x for e in tok["edges"] for x in e]:
        if n not in ids:
            ids[n] = fmt(len(ids))
    return ids


def derender_graph(kind, lines, nheader, id2label):
    """Observed text -> line tokens (node labels via the unique identifiers of the structural run)."""
    nodes, edges, junk = [], [], 0
    body = lines[nheader:] if kind == "mermaid" else lines[nheader:-1]
    for line in body:
        m = (RE_MM_EDGE if kind == "mermaid" else RE_DOT_EDGE).match(line)
        if m:
            a, b = (m.group(2), m.group(4))
            edges.append([id2label.get(a, "?"), id2label.get(b, "?")])
            continue
        m = (RE_MM_NODE if kind == "mermaid" else RE_DOT_NODE).match(line)
        if m:
            nodes.append(id2label.get(m.group(2), "?"))
            continue
        junk += 1
    if junk or (kind != "mermaid" and (not lines or lines[-1] != "}")):
        nodes.append("?")
    return {"nodes": nodes, "edges": edges}


def tok_labels(t):
    return {"nodes": [L(x) for x in t["nodes"]], "edges": [[L(a), L(b)] for a, b in t["edges"]]}


def perform_graph(q, par, ch, idx):
    from . import nodes as N
    from anytree import Node, PreOrderIter
    from anytree.exporter import DotExporter, MermaidExporter, UniqueDotExporter

    lab = N.label
    fls, sts = set(q["fl"]), set(q["st"])
    ml = None if q["ml"] == NOMAX else q["ml"]
    kw = dict(filter_=lambda n: lab(n) in fls, stop=lambda n: lab(n) in sts, maxlevel=ml)
    res = {"n": 0, "bad": [], "known": []}
    # ---------------- run A: structure (unique, safe names = labels; default options)
    N.new_universe()
    N.Ctx.log = None
    for lbl in par:
        N.register(Node(lbl), lbl)
    for pp, kids in ch.items():
        for c in kids:
            N.Ctx.objs[c].parent = N.Ctx.objs[pp]
    if N.snapshot() != (par, ch):
        return {"build_failed": True}
    objs = N.Ctx.objs
    start = objs[q["s"]]
    it = [lab(x) for x in PreOrderIter(start, **kw)]
    structures = {}
    for kind, cls in (("dot", DotExporter), ("unique", UniqueDotExporter), ("mermaid", MermaidExporter)):
        res["n"] += 1
        asbuilt = q["mermaid"] if kind == "mermaid" else q["dot"]
        try:
            # identifiers = harness labels (unambiguous de-rendering); the default identifier schemes are exercised in run B
            ex = cls(start, nodenamefunc=lambda n: lab(n), **kw) if kind != "dot" else cls(start, **kw)
            lines = list(ex)
            again = list(ex)
        except Exception as e:  # noqa
            res["bad"].append({"kind": kind, "prop": "C13" if kind == "mermaid" else "C12", "raised": "%s: %s" % (type(e).__name__, str(e)[:200])})
            continue
        id2label = {l: l for l in par}
        obs = derender_graph(kind, lines, 1, id2label)
        structures[kind] = obs
        header_ok = lines and lines[0] == ("graph TD" if kind == "mermaid" else "digraph tree {")
        if obs == asbuilt and again == lines and header_ok:
            if asbuilt != q["def"]:
                res["known"].append(kind)
        else:
            res["bad"].append({"kind": kind, "prop": "C13" if kind == "mermaid" else "C12", "obs": obs, "iter": it,
                               "repeat_differs": again != lines, "header_ok": bool(header_ok), "lines": lines[:12]})
    # ---------------- run B: text format (names with quotes/backslashes/non-ASCII/collisions, custom functions, options, indent)
    names = {l: name_str(c) for l, c in q["names"].items()}
    escs = {l: name_str(c) for l, c in q["esc"].items()}
    N.new_universe()
    N.Ctx.log = None
    variant = idx % 4
    for lbl in par:
        N.register(Node(StrLike(names[lbl]) if variant == 1 else names[lbl]), lbl)
    for pp, kids in ch.items():
        for c in kids:
            N.Ctx.objs[c].parent = N.Ctx.objs[pp]
    objs = N.Ctx.objs
    start = objs[q["s"]]
    for kind, cls in (("dot", DotExporter), ("unique", UniqueDotExporter), ("mermaid", MermaidExporter)):
        if kind not in structures:
            continue
        prop = "C13" if kind == "mermaid" else "C12"
        tok = structures[kind]           # the observed structure: run B only judges the text format
        if "?" in tok["nodes"] or any("?" in e for e in tok["edges"]):
            continue
        opts = {"graph": "digraph" if kind != "mermaid" else "graph", "name": "tree" if kind != "mermaid" else "TD", "options": None,
                "indent": 4 if kind != "mermaid" else 0,
                "nodeattr": (lambda n, lb: None) if kind == "dot" else (lambda n, lb: 'label="%s"' % names[n]),
                "edgeattr": lambda a, b: None, "edgetype": lambda a, b: "->",
                "nodefunc": lambda n, lb: '["%s"]' % escs[n], "edgefunc": lambda a, b: "-->"}
        ckw = {}
        if variant in (1, 3):
            opts.update(graph="graph" if kind != "mermaid" else "flowchart", name="g" if kind != "mermaid" else "LR",
                        options=["rankdir=LR;", 'node [shape="box"];'] if kind != "mermaid" else ["%% a comment", "classDef x fill:#f9f"],
                        indent=2 if variant == 1 else 0)
            ckw.update(graph=opts["graph"], name=opts["name"], options=opts["options"], indent=opts["indent"])
        if variant in (2, 3):
            if kind == "mermaid":
                opts.update(nodefunc=lambda n, lb: "(%s)" % names[n], edgefunc=lambda a, b: "-.%s.->" % names[b])
                ckw.update(nodefunc=lambda n: "(%s)" % n.name, edgefunc=lambda a, b: "-.%s.->" % b.name)
            else:
                # (an empty string is a result, too: only None means "no attribute list")
                opts.update(nodeattr=lambda n, lb: "" if len(str(names[n])) % 2 else "shape=box, tooltip=%s" % names[n],
                            edgeattr=lambda a, b: "" if len(str(names[b])) % 2 else 'label="%s"' % names[b],
                            edgetype=lambda a, b: "--")
                ckw.update(nodeattrfunc=lambda n: "" if len(str(n.name)) % 2 else "shape=box, tooltip=%s" % n.name,
                           edgeattrfunc=lambda a, b: "" if len(str(b.name)) % 2 else 'label="%s"' % b.name,
                           edgetypefunc=lambda a, b: "--")
        if kind == "dot":
            ids = {l: escs[l] for l in par}
            if variant == 3:
                ids = {l: "id-" + escs[l] for l in par}
                ckw.update(nodenamefunc=lambda n: "id-" + n.name)
        elif kind == "unique":
            ids = first_occurrence_ids(tok, lambda i: hex(i))
        elif variant in (2, 3):
            # custom edge texts cannot be told apart from identifiers: use explicit identifiers here (the default
            # identifier scheme is exercised in variants 0 and 1, where it is compared up to renaming)
            ids = {l: l for l in par}
            ckw.update(nodenamefunc=lambda n: lab(n))
        else:
            ids = first_occurrence_ids(tok, lambda i: "N%d" % i)
        res["n"] += 1
        try:
            ex = cls(start, **kw, **ckw)
            lines = list(ex)
            exp = graph_lines(kind, tok, ids, names, opts)
            if lines != exp:
                if kind != "dot" and _canon(lines, kind) == _canon(exp, kind):
                    pass        # another identifier scheme: distinct and consistent, which is all the property asks
                elif kind == "unique" and variant in (0, 1) and _strip_label(lines) == _strip_label(exp):
                    pass        # text of UniqueDotExporter's default label attribute: not constrained by the property
                else:
                    res["bad"].append({"kind": kind, "prop": prop, "direct": True, "what": "text format", "variant": variant,
                                       "lines": lines[:14], "expected": exp[:14]})
            if list(ex) != lines:
                res["bad"].append({"kind": kind, "prop": prop, "direct": True, "what": "second iteration differs"})
            if variant in (0, 2) and tok["nodes"]:
                # an exporter object holds no verdicts of its own: when the filter's answer for a node changes between two
                # iterations, the second iteration is what a fresh exporter produces now
                victim = tok["nodes"][-1]
                fls.discard(victim)
                try:
                    second = list(ex)
                    fresh = list(cls(start, **kw, **ckw))
                finally:
                    fls.add(victim)
                if (_canon(second, kind) if kind != "dot" else second) != (_canon(fresh, kind) if kind != "dot" else fresh):
                    res["bad"].append({"kind": kind, "prop": prop, "direct": True, "what": "re-iterating an exporter after the filter's verdict for a node changed differs from a fresh exporter",
                                       "lines": second[:10], "expected": fresh[:10]})
                # a tree of nodes with their own __eq__/__hash__ is exported like a tree of plain nodes (identifiers per node object)
                advcls = N.FAMILIES["adv:alwayseq:mixin"]["cls"]
                twins = {l: advcls(name=names[l]) for l in par}
                for pp, kids in ch.items():
                    for c in kids:
                        twins[c].parent = twins[pp]
                back = {id(o): l for l, o in twins.items()}
                akw = dict(filter_=lambda n: back[id(n)] in fls, stop=lambda n: back[id(n)] in sts, maxlevel=ml)
                try:
                    ackw = dict(ckw)
                    if kind == "mermaid" and variant in (2, 3):
                        ackw["nodenamefunc"] = lambda n: back[id(n)]
                    advlines = list(cls(twins[q["s"]], **akw, **ackw))
                    if _canon(advlines, kind) != _canon(lines, kind):
                        res["bad"].append({"kind": kind, "prop": prop, "direct": True, "what": "export of a tree of always-equal nodes differs from the export of plain nodes",
                                           "lines": advlines[:10], "expected": lines[:10]})
                except Exception as e:  # noqa
                    res["bad"].append({"kind": kind, "prop": prop, "direct": True, "what": "export of a tree of always-equal nodes raised %s: %s" % (type(e).__name__, str(e)[:100])})
            if kind != "dot" and variant in (0, 1) and len(tok["nodes"]) >= 3 and not opts["options"]:
                # default identifiers belong to nodes, not to positions: hide the second declared node and iterate again
                idre2 = re.compile(r'^ *"?(0x[0-9a-f]+|N\d+)"?(?: \[|\[|\(|;)')
                first_ids = [m.group(1) for m in map(idre2.match, lines) if m]
                gone = tok["nodes"][1]
                if len(first_ids) == len(tok["nodes"]) and gone in fls:
                    fls.discard(gone)
                    try:
                        again_lines = list(ex)
                    finally:
                        fls.add(gone)
                    second_ids = [m.group(1) for m in map(idre2.match, again_lines) if m]
                    keep = [n for n in tok["nodes"] if n != gone]
                    want = [i for n, i in zip(tok["nodes"], first_ids) if n != gone]
                    if len(second_ids) == len(keep) and second_ids != want:
                        res["bad"].append({"kind": kind, "prop": prop, "direct": True, "what": "identifiers of the surviving nodes changed between two iterations of one exporter",
                                           "ids_before": first_ids, "ids_after": second_ids})
            if kind != "dot" and variant == 0 and not fls.symmetric_difference(par) and not sts and tok["nodes"]:
                # default identifiers stay distinct per node and stable across iterations of ONE exporter, also when the
                # tree grows between two iterations and when two iterations are interleaved
                it1 = iter(ex)
                first = next(it1)
                inter = list(ex)
                rest = [first] + list(it1)
                grown = N.register(Node("grown", parent=objs[tok["nodes"][-1]]), "grown")
                fls.add("grown")
                try:
                    after = list(ex)
                finally:
                    grown.parent = None
                    fls.discard("grown")
                idre = re.compile(r'^ *"?(0x[0-9a-f]+|N\d+)"?(?: \[|\[|;)')
                ids_before = [m.group(1) for m in map(idre.match, lines) if m]
                ids_after = [m.group(1) for m in map(idre.match, after) if m]
                if inter != lines or rest != lines:
                    res["bad"].append({"kind": kind, "prop": prop, "direct": True, "what": "interleaved iterations of one exporter differ", "lines": inter[:8]})
                elif len(set(ids_after)) != len(ids_after) or ids_after[:len(ids_before)] != ids_before or len(ids_after) not in (len(ids_before), len(ids_before) + 1):
                    res["bad"].append({"kind": kind, "prop": prop, "direct": True, "what": "identifiers not distinct/stable after the tree grew between two iterations",
                                       "ids_before": ids_before, "ids_after": ids_after, "lines": after[:12]})
            if variant == 1:
                # files: to_dotfile = lines + newline; to_file = fenced lines
                with tempfile.TemporaryDirectory(prefix="verif-exp-") as tmp:
                    path = os.path.join(tmp, "out.txt")
                    if kind == "mermaid":
                        cls(start, **kw, **ckw).to_file(path)
                        want = "```mermaid\n" + "".join(l + "\n" for l in lines) + "```"
                    else:
                        cls(start, **kw, **ckw).to_dotfile(path)
                        want = "".join(l + "\n" for l in lines)
                    with open(path, encoding="utf-8") as f:
                        if f.read() != want:
                            res["bad"].append({"kind": kind, "prop": prop, "direct": True, "what": "file content"})
            if kind == "dot" and variant == 2:
                from anytree.dotexport import RenderTreeGraph

                with warnings.catch_warnings(record=True) as w:
                    warnings.simplefilter("always")
                    legacy = list(RenderTreeGraph(start, **kw, **ckw))
                if legacy != lines or not any(issubclass(x.category, DeprecationWarning) for x in w):
                    res["bad"].append({"kind": kind, "prop": prop, "direct": True, "what": "RenderTreeGraph differs from DotExporter / no DeprecationWarning"})
        except Exception as e:  # noqa
            res["bad"].append({"kind": kind, "prop": prop, "raised": "%s: %s" % (type(e).__name__, str(e)[:200]), "variant": variant})
    return res


def _canon(lines, kind):
    """identifiers renamed by first occurrence (unique exporter / mermaid)."""
    seen = {}

    def ren(m):
        t = m.group(0)
        if t not in seen:
            seen[t] = "ID%d" % len(seen)
        return seen[t]

    if kind == "dot":
        return list(lines)
    if kind == "unique":
        return [re.sub(r'"0x[0-9a-f]+"|"[^" ]+"(?= (?:->|--|\[)|;)', ren, l) for l in lines]
    out = []
    for l in lines:
        m = re.match(r'^( *)(\w+)-->(\w+)$', l)
        if m:       # default edge: both identifiers
            out.append("%s%s-->%s" % (m.group(1), ren(re.match(r'\w+', m.group(2))), ren(re.match(r'\w+', m.group(3)))))
        else:
            out.append(re.sub(r'^( *)(\w+)', lambda m2: m2.group(1) + ren(re.match(r'\w+', m2.group(2))), l))
    return out


def _strip_label(lines):
    return [re.sub(r' \[label=.*\];$', ";", l) for l in lines]


def to_labels(vec):
    z = vec["z"]
    k = vec["k"]
    if z["q"] == "dict":
        o = z["o"]
        key = o["ci"]["key"]
        oo = {"attriter": o["attriter"], "ml": o["ml"],
              "ci": {"kind": o["ci"]["kind"], "hide": sorted(L(x) for x in o["ci"]["hide"]),
                     "key": {L(i + 1): v for i, v in enumerate(key)} if isinstance(key, list) else {L(int(i)): v for i, v in key.items()}}}
        return {"q": "dict", "s": L(z["s"]), "attrs": attrs_labels(z["attrs"], k), "o": oo, "d": z["d"], "imp": z["imp"], "jml": z["jml"],
                "jd": z["jd"], "jd_default": z["jdd"]}
    names = z["names"]
    esc = z["esc"]
    if isinstance(names, dict):
        names = [names[str(i + 1)] for i in range(k)]
        esc = [esc[str(i + 1)] for i in range(k)]
    return {"q": "graph", "s": L(z["s"]), "st": sorted(L(x) for x in z["st"]), "fl": sorted(L(x) for x in z["fl"]), "ml": z["ml"],
            "def": tok_labels(z["def"]), "dot": tok_labels(z["dot"]), "mermaid": tok_labels(z["mermaid"]),
            "names": {L(i + 1): n for i, n in enumerate(names)}, "esc": {L(i + 1): n for i, n in enumerate(esc)}}


def worker_init(repo, assertions=False):
    os.environ["ANYTREE_ASSERTIONS"] = "1" if assertions else "0"
    sys.path.insert(0, repo)
    import anytree  # noqa

    assert os.path.abspath(anytree.__file__).startswith(os.path.abspath(repo)), anytree.__file__
    from . import nodes  # noqa

    # the library's recursive properties and iterators use a few frames per tree level: the chains of the large drawn
    # instances (hundreds of levels) must not depend on how deep the harness's own call stack happens to be
    sys.setrecursionlimit(20000)


@core.safe_worker
def replay_chunk(args):
    lines, base = args
    out = {"n": 0, "vectors": 0, "attention": [], "dropped": 0, "known": {}, "known_witness": {}}
    for i, line in enumerate(lines):
        vec = json.loads(json.loads(line))
        par, ch = forest_of(vec["k"], vec["p"])
        q = to_labels(vec)
        out["vectors"] += 1
        try:
            obs = perform_dict(q, par, ch, base + i) if q["q"] == "dict" else perform_graph(q, par, ch, base + i)
        except Exception as e:  # noqa
            import traceback

            obs = {"n": 0, "bad": [{"prop": "harness", "raised": traceback.format_exc()[-600:]}]}
        if obs.get("build_failed"):
            continue
        out["n"] += obs["n"]
        for kf in obs.get("known", []):
            out["known"][kf] = out["known"].get(kf, 0) + 1
            out["known_witness"].setdefault(kf, {"par": par, "ch": ch, "s": q["s"], "st": q["st"], "fl": q["fl"], "ml": q["ml"],
                                                 "as_built": q["dot"], "definition": q["def"]})
        if obs["bad"]:
            if len(out["attention"]) < 25:
                out["attention"].append({"par": par, "ch": ch, "query": q, "bad": obs["bad"][:6]})
            else:
                out["dropped"] += 1
    return out

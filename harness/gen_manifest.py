"""Regenerates /verif/MANIFEST.json from the table below (run: /venv/bin/python -m harness.gen_manifest)."""
import json
import os

VERIF = os.path.dirname(os.path.dirname(os.path.abspath(__file__)))

TB = ("TLC 1.8 and the CommunityModules; the harness's projection of real objects through the public parent/children "
      "attributes, its label table keyed by id(), JSON equality and the small trusted renderers (segment tokens -> text); "
      "bounded model sizes (see evidence.coverage.configs); hooks observe and raise, or (MC_OpsRe, 3-4 nodes) make one call `m.parent = w` themselves; "
      "CPython's json / pickle / copy / re are taken as given")

CLAIMS = {
    "C01": ("spec NodeOps (small-step interpreter of the mutators with hook-fault plans) + TLC invariants; every big-step transition replayed into 6 class families x both assertion settings; observations judged by TLC (TraceOps); tlc -simulate histories (MC_OpsSim) replayed as chains of calls on the same live objects; re-entrant hooks (MC_OpsRe: every hook invocation of every call makes every call m.parent = w; Thm_Re; judge TraceOpsRe)",
            "Exhaustive within bounds: all forests over N<=4 (5 thorough) nodes, all calls, every hook-fault position; WellFormed is a TLC invariant of the model and is evaluated by TLC on every observed post-state and hook snapshot that differs from the model.", "6/C01"),
    "C02": ("declarative IdealEffect/MustRefuse (NodeOpsProps) checked against the interpreter by TLC (Thm_C02); all fault-free transitions replayed; differing observations judged by TLC",
            "Exhaustive within bounds over forests, node/target pairs and children sequences incl. repeats, self, ancestors, descendants, non-node and non-iterable arguments, constructors.", "6/C02"),
    "C03": ("TLC action property C03_OK \\/ named deviation over all fault plans; replay; known findings A-E identified by mark + identical outcome and forest",
            "Exhaustive within bounds over every pre-hook fault position (once, twice in thorough, persistent per kind); the pinned code's deviations are listed known findings, any other refused/vetoed call that changes the forest is a violation.", "6/C03"),
    "C04": ("definitions in spec Tree, cross-lemmas checked by TLC on every shape; every (shape, node) and node tuple emitted as vector and replayed", "Exhaustive over all ordered forests with <= 6 (8) nodes.", "6/C04"),
    "C05": ("definitional orders vs transcribed algorithms (IterAlgo) proved equal by TLC on all shapes; vectors replayed", "Exhaustive over all ordered forests with <= 7 (9) nodes and every start node.", "6/C05"),
    "C06": ("Admitted/Restrict definition vs transcribed algorithms proved equal by TLC for every stop set x filter set x maxlevel; vectors replayed; judged relative to the observed unrestricted traversal", "Exhaustive over all trees <= 4 (5) nodes with all subsets, larger trees with small subsets.", "6/C06"),
    "C07": ("Get of spec Resolver is the statement itself; round-trip lemmas Lem_Get checked by TLC; every (tree, names, start, path, flags) vector replayed on four class variants; judged by TLC (TraceResolver)",
            "Exhaustive over trees <= 4 nodes x 8 naming schemes x paths <= 2 (3) components; found and repaired the relax AttributeError defect.", "6/C07"),
    "C08": ("property predicates RelaxedOK/StrictOK/DeadEnd + character-level Match; as-built recursion AGlob proved to satisfy them by TLC (Thm_Glob); vectors replayed in three cache states; observations judged by TLC",
            "Exhaustive over trees <= 3-4 nodes x naming schemes x patterns <= 2 (3) components incl. wildcards and '**'; found and repaired the literal-component ChildResolverError defect.", "6/C08"),
    "C09": ("RowsDef (segments from 'has a following sibling') vs the transcribed recursion proved equal by TLC (Thm_Rows) + decoding lemma; vectors rendered with 7 styles, lazy/eager childiter, str/by_attr variants, reprs; judged by TLC on de-rendered tokens",
            "Exhaustive over all trees <= 6 (8) nodes, start nodes, childiter kinds, maxlevels, 4 line-count assignments.", "6/C09"),
    "C10": ("ExportDef/ImportDef with round-trip theorems (Thm_Dict) checked by TLC; vectors replayed for three node families, dict/OrderedDict, argument immutability, three nodecls",
            "Exhaustive over trees <= 4 (5) nodes x attribute schemes x attriter/childiter/maxlevel.", "6/C10"),
    "C11": ("delegation structure (JSON maxlevel overrides, dumps of the dictionary) in the spec with dumps/loads uninterpreted; text compared exactly with json.dumps of the emitted dictionary under 7 option sets; importer round trip",
            "Exhaustive over the C10 space; the JSON codec itself is sampled by a value pool (residue stated in DESIGN.md).", "6/C11"),
    "C12": ("GraphDef vs as-built two-pass generation proved equal up to the named deviation stop_edge (Thm_Graph), Esc proved invertible; structural and text-format replays; judged by TLC relative to the observed PreOrderIter",
            "Exhaustive over trees <= 4 (5) nodes x all stop sets x all filter sets x maxlevel; found and repaired the maxlevel=0 defect; stop_edge is a listed known finding pinned by the existing tests.", "6/C12"),
    "C13": ("as C12 for MermaidExporter (no deviation after the maxlevel=0 fix)", "Exhaustive over trees <= 4 (5) nodes x all stop sets x all filter sets x maxlevel.", "6/C13"),
    "C14": ("FindAll/Find definitions over C06's VisitPre; vectors through anytree.search and anytree.cachedsearch; judged relative to observed PreOrderIter", "Exhaustive over forests <= 4 (5) nodes, all count bounds, all attribute assignments.", "6/C14"),
    "C15": ("Walk definition + Lem_Walk (simple path, mirror) checked by TLC; all ordered pairs replayed", "Exhaustive over all forests <= 6 (8) nodes and all ordered node pairs.", "6/C15"),
    "C16": ("declarative IdealLog/Observes (NodeOpsProps) checked against the interpreter by TLC (Thm_C16); complete hook logs with in-hook snapshots compared on every transition; re-entrant hooks (MC_OpsRe / Thm_Re): the nested call obeys the protocol and every later per-node hook of a non-interfered call still observes what is promised", "Exhaustive within bounds; hook sequences of refused/aborted children assignments are deliberately unconstrained.", "6/C16"),
    "C17": ("the specification is the identity-only semantics; conformance of 16 adversarial class families (always-equal, never-equal, falsy, zero-length, unhashable, container-like, ordering, tripwire x both mixins) to the same TLC vectors, in lock-step with the plain class",
            "Vectors of M1 (all fault plans, and calls with re-entrant hooks), M2 (navigation, util, iterators, Walker, search) and M3 (Resolver get/glob); 'all user classes' is represented by the finite family; found and repaired the leftsibling/rightsibling and glob('**') identity defects.", "6/C17"),
    "C18": ("one specification, two implementations: both mixins replayed on the same vectors (mutators with all fault plans and with re-entrant hooks, and queries) and compared in lock-step", "Exhaustive within the M1/M2 bounds.", "6/C18"),
    "C19": ("CloneDef (canonical copy of the closure under parent/children/target) proved to satisfy the label-free predicate IsCopy by TLC (Thm_Clone); every (forest, family, entry node, method) vector replayed with a lock-step correspondence walk; follow-up mutations on both sides; judged by TLC (TraceClone)",
            "Exhaustive over forests <= 4 (5) nodes x 5 class families (incl. links to the same tree, another tree, another link) x deepcopy and pickle protocols 0-5.", "6/C19"),
    "C20": ("spec Attrs (Get/Set forwarding, constructor keywords, structural independence) with invariants Forwarding / LinksOwnNothing checked by TLC on all reachable states; every transition replayed on SymlinkNode / SymlinkNodeMixin x Node / AnyNode; judged by TLC (TraceAttrs); plus the M1 vectors on the link families",
            "Exhaustive over all states reachable with 1 (2) ordinary and 2 link nodes, 3 keys, 2 values; found and repaired the constructor-keyword defect for links to links.", "6/C20"),
}

ALL = ["C%02d" % i for i in range(1, 21)]


def main():
    checks = []
    for pid in ALL:
        if pid not in CLAIMS:
            continue
        tech, text, ref = CLAIMS[pid]
        checks.append({
            "property_id": pid,
            "quick_cmd": "./check %s --tier quick" % pid,
            "thorough_cmd": "./check %s --tier thorough" % pid,
            "evidence_file": "evidence/%s.json" % pid,
            "replay_cmd_template": "./check replay {path}",
            "engine": "tlc+replay",
            "level_claimed": {"category": "model_checking", "text": text, "design_ref": ref},
            "level_note": TB,
            "technique": "explicit TLA+ specification model-checked with TLC; conformance in both directions: every TLC transition replayed into the real code, "
                         "and executions recorded from the real code (the repository's own test-suite under a tracer, seeded random histories on live objects) "
                         "validated by TLC, which also judges every differing observation: " + tech,
        })
    m = {
        "version": 1,
        "setup_cmd": "./check setup",
        "hooks": {
            "guard": "ANYTREE_VERIF_TRACE",
            "enable": "no source hooks are needed: the public parent/children attributes expose the abstract state; instrumented subclasses and the tracer that wraps the property objects live in /verif/harness",
            "baseline_off_cmd": "cd /repo && /venv/bin/python -m pytest -ra -q -p no:cacheprovider --timeout=900 --continue-on-collection-errors",
            "source_commits": [],
            "add_only": True,
        },
        "engines": [{"name": "tlc+replay", "path": "check", "serves_properties": sorted(CLAIMS),
                     "kind_free_text": "TLA+ specs under spec/, TLC model checking + vector emission, Python replay into real anytree classes, TLC judge/trace validation"}],
        "checks": checks,
        "not_applicable": [{"property_id": p, "reason": "check under construction in this session (will be claimed)"} for p in ALL if p not in CLAIMS],
        "notes": "See DESIGN.md. Known findings are in known_findings.json.",
    }
    with open(os.path.join(VERIF, "MANIFEST.json"), "w") as f:
        json.dump(m, f, indent=1)
    print("MANIFEST.json written: %d checks" % len(checks))


if __name__ == "__main__":
    main()

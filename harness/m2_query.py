"""Module M2 (read-only API): TLC runs over all shapes, replay, judging.  Serves C04 C05 C06 C14 C15 (C17, C18)."""
import json
import random

from . import core, judge, query_replay
from . import tlc as T

ALLQ = ("nav", "common", "iters", "walk", "findall", "find", "byattr")


def cfg(name, MaxN, queries, TreesOnly=False, MaxTuple=0, MaxStop=0, MaxHide=0, NegLevel=False, OnlyNoMax=False, sample_others=4):
    return dict(name=name, MaxN=MaxN, queries=tuple(queries), TreesOnly=TreesOnly, MaxTuple=MaxTuple, MaxStop=MaxStop,
                MaxHide=MaxHide, NegLevel=NegLevel, OnlyNoMax=OnlyNoMax, sample_others=sample_others)


def big(name, queries, lo, hi, instances, per, TreesOnly=False, OnlyNoMax=False, sample_others=2):
    """Beyond the exhaustive bounds: large random shapes with random queries (MC_QueryBig)."""
    c = cfg(name, 4, queries, TreesOnly=TreesOnly, OnlyNoMax=OnlyNoMax, sample_others=sample_others)
    c["big"] = dict(BigMin=lo, BigMax=hi, Instances=instances, PerShape=per)
    return c


CONFIGS = {
    ("C04", "quick"): [cfg("nav-f6", 6, ("nav", "common"), MaxTuple=3)],
    ("C04", "thorough"): [cfg("nav-f7", 7, ("nav", "common"), MaxTuple=3), cfg("nav-f8", 8, ("nav",), MaxTuple=0)],
    ("C05", "quick"): [cfg("iter-f7", 7, ("iters",), OnlyNoMax=True)],
    ("C05", "thorough"): [cfg("iter-f9", 9, ("iters",), OnlyNoMax=True)],
    ("C06", "quick"): [cfg("opt-t4", 4, ("iters",), TreesOnly=True, MaxStop=4, MaxHide=4, NegLevel=True),
                       cfg("opt-t5s", 5, ("iters",), TreesOnly=True, MaxStop=1, MaxHide=1)],
    ("C06", "thorough"): [cfg("opt-t5", 5, ("iters",), TreesOnly=True, MaxStop=5, MaxHide=5, NegLevel=True),
                          cfg("opt-t6s", 6, ("iters",), TreesOnly=True, MaxStop=2, MaxHide=2)],
    ("C14", "quick"): [cfg("search-f4", 4, ("findall", "find", "byattr"))],
    ("C14", "thorough"): [cfg("search-f5", 5, ("findall", "find")), cfg("byattr-t5", 5, ("byattr",), TreesOnly=True)],
    ("C15", "quick"): [cfg("walk-f6", 6, ("walk",))],
    ("C15", "thorough"): [cfg("walk-f8", 8, ("walk",))],
    ("C17", "quick"): [cfg("all-f4", 4, ("nav", "common", "iters", "walk", "find"), MaxTuple=2, MaxStop=1, MaxHide=1, sample_others=0)],
    ("C17", "thorough"): [cfg("all-f5", 5, ("nav", "common", "iters", "walk", "find"), MaxTuple=2, MaxStop=2, MaxHide=2, sample_others=0)],
    ("C18", "quick"): [cfg("all-f4", 4, ("nav", "common", "iters", "walk", "find"), MaxTuple=2, MaxStop=1, MaxHide=1, sample_others=0)],
    ("C18", "thorough"): [cfg("all-f5", 5, ("nav", "common", "iters", "walk", "find"), MaxTuple=2, MaxStop=2, MaxHide=2, sample_others=0)],
}

BIG = {
    "C04": (("nav", "common"), {}), "C05": (("iters",), dict(OnlyNoMax=True)), "C06": (("iters",), dict(TreesOnly=True)),
    "C14": (("findall", "find", "byattr"), {}), "C15": (("walk",), {}),
    "C17": (("nav", "common", "iters", "walk", "find"), dict(sample_others=0)), "C18": (("nav", "common", "iters", "walk", "find"), dict(sample_others=0)),
}
for _p, (_q, _kw) in BIG.items():
    _n = _p.lower()
    CONFIGS[(_p, "quick")] = CONFIGS[(_p, "quick")] + [big("big-%s-40" % _n, _q, 10, 40, 48, 40, **_kw), big("big-%s-300" % _n, _q, 100, 300, 12, 30, **_kw)]
    CONFIGS[(_p, "thorough")] = CONFIGS[(_p, "thorough")] + [big("big-%s-60" % _n, _q, 10, 60, 400, 60, **_kw), big("big-%s-300t" % _n, _q, 100, 300, 48, 40, **_kw)]

LEMMAS = ("Lem_Nav", "Lem_Orders", "Lem_Walk")


def tlc_cfg(c):
    if c.get("big"):
        consts = {"Nil": 0, "MaxN": c["MaxN"], "TreesOnly": c["TreesOnly"], "Queries": set(c["queries"]), "MaxTuple": 0, "MaxStop": 0, "MaxHide": 0,
                  "NegLevel": False, "OnlyNoMax": c["OnlyNoMax"]}
        consts.update(c["big"])
        # (the cross-lemmas are checked on every small shape; on large shapes only "as-built = definition" per transition)
        return T.cfg_text(consts, init="BigInit", next_="BigNext", view="View", properties=("Thm_Iters",), action_constraints=("Emit",), deadlock=False)
    return T.cfg_text(
        {"Nil": 0, "MaxN": c["MaxN"], "TreesOnly": c["TreesOnly"], "Queries": set(c["queries"]), "MaxTuple": c["MaxTuple"],
         "MaxStop": c["MaxStop"], "MaxHide": c["MaxHide"], "NegLevel": c["NegLevel"], "OnlyNoMax": c["OnlyNoMax"]},
        view="View", invariants=LEMMAS, properties=("Thm_Iters",), action_constraints=("Emit",), deadlock=False)


def run_model(c, coverage=False):
    if c.get("big"):
        # one worker and a fixed seed: the drawn instances are the same in every run
        return T.run_vectors("MC_QueryBig", tlc_cfg(c), c["name"], lambda st: st["distinct"] * c["big"]["PerShape"], workers=1,
                             extra=("-seed", str(11 + core.seed())))
    return T.run_vectors("MC_Query", tlc_cfg(c), c["name"], lambda st: st["generated"] - st["distinct"])


def _replay(lines, families, lockstep, repo, procs=16, asrt=False):
    with core.pool(query_replay.worker_init, (repo, asrt), procs) as p:
        size = max(50, min(4000, len(lines) // (procs * 4) + 1))
        parts = core.pmap(p, query_replay.replay_chunk, [(ch, families, lockstep) for ch in core.chunks(lines, size)])
    tot = {"n": 0, "same": 0, "attention": [], "per_kind": {}, "lockstep_diff": [], "dropped": 0}
    for r in parts:
        for k in ("n", "same", "dropped"):
            tot[k] += r[k]
        tot["recursion_limit"] = tot.get("recursion_limit", 0) + r.get("recursion_limit", 0)
        tot["attention"] += r["attention"]
        tot["lockstep_diff"] += r["lockstep_diff"]
        for f, k in r["per_kind"].items():
            tot["per_kind"][f] = tot["per_kind"].get(f, 0) + k
    return tot


_memo = {}


def run(prop, tier, repo=None, families=("mixin", "light"),
        others=("node", "anynode", "symlink", "adv:falsy:mixin", "adv:alwayseq:light", "adv:tripwire:mixin", "adv:zerolen:light")):
    repo = repo or core.repo_path()
    key = (prop, tier, repo, families)
    if key in _memo:
        return _memo[key]
    rnd = random.Random(core.seed())
    outcomes = []
    for c in CONFIGS[(prop, tier)]:
        stats = run_model(c)
        lines = T.read_lines(stats["lines_path"])
        pairs = [tuple(families[:2])] if len(families) >= 2 else None
        if prop == "C17":
            pairs = [(f.rsplit(":", 1)[1], f) for f in families if f.startswith("adv:")]
        tot = _replay(lines, list(families), pairs, repo)
        tot.update(config=c, tlc=stats, families=list(families), vectors=len(lines))
        outcomes.append(tot)
        # the same vectors with the library's internal assertions switched on (seeded third): none may fire
        sub = lines[rnd.randrange(3)::3]
        tot = _replay(sub, ["mixin", "light"], None, repo, asrt=True)
        tot.update(config=c, tlc=stats, families=["mixin+assertions", "light+assertions"], vectors=len(sub))
        outcomes.append(tot)
        k = c["sample_others"]
        if k and others:
            sub = lines[rnd.randrange(k)::k]
            tot = _replay(sub, list(others), None, repo)
            tot.update(config=c, tlc=stats, families=list(others), vectors=len(sub))
            outcomes.append(tot)
    judge_attention(outcomes)
    _memo[key] = outcomes
    return outcomes


DUMMY_ITERS = {"pre": [], "post": [], "level": [], "groups": [], "zigzag": []}


def event_of(att, ident):
    q, o = att["query"], att["obs"]
    e = {"id": ident, "q": q["q"], "par": att["par"], "ch": att["ch"]}
    k = q["q"]
    if k == "nav":
        e.update(n=q["n"], res=o["res"], ipr=o["extra"]["iter_path_reverse"])
    elif k == "common":
        e.update(ns=q["ns"], res=o["res"])
    elif k == "walk":
        e.update(s=q["s"], e=q["e"], res=o["res"])
    elif k == "iters":
        e.update(s=q["s"], st=q["st"], fl=q["fl"], ml=q["ml"], hasbase="base" in o, base=o.get("base", DUMMY_ITERS),
                 hasres="res" in o, res=o.get("res", DUMMY_ITERS))
    elif k in ("findall", "find"):
        e.update(s=q["s"], st=q["st"], fl=q["fl"], ml=q["ml"], minc=q.get("minc", -1), maxc=q.get("maxc", -1),
                 iter=o["iter"], results=list(o["res"].values()))
    elif k == "byattr":
        e.update(s=q["s"], ml=q["ml"], minc=q["minc"], maxc=q["maxc"], iter=o["iter"],
                 allresults=[r for n, r in o["res"].items() if n.endswith(".all")],
                 oneresults=[r for n, r in o["res"].items() if n.endswith(".one")])
    return e


def judge_attention(outcomes, cap=4000):
    events, index = [], {}
    for oi, out in enumerate(outcomes):
        for ai, att in enumerate(out["attention"]):
            o = att["obs"]
            if o.get("build_failed"):
                att["verdict"] = {"violated": [], "note": "pre-state could not be built (the mutators are broken: C01/C02)"}
                continue
            if "raised" in o:
                props = query_replay.PROP_OF[att["query"]["q"]].split("/")
                att["verdict"] = {"violated": props[:1] if att["query"]["q"] != "iters" else props, "note": "unexpected exception " + o["raised"]}
                continue
            if len(events) >= cap:
                continue
            ident = "%d.%d" % (oi, ai)
            events.append(event_of(att, ident))
            index[ident] = att
    if not events:
        return
    verdicts, _ = judge.run_judge("TraceQuery", events, {"Nil": "Nil"}, tag="judge-query")
    for i, v in verdicts.items():
        index[i]["verdict"] = {"violated": sorted(v)}


def classify(outcomes, res, prop):
    for out in outcomes:
        res.replayed += out["n"]
        if out.get("recursion_limit"):
            res.extra["replays_skipped_at_the_interpreters_recursion_limit"] = res.extra.get("replays_skipped_at_the_interpreters_recursion_limit", 0) + out["recursion_limit"]
        for att in out["attention"]:
            v = att.get("verdict")
            if v is None:
                continue
            if prop in v["violated"]:
                res.violation({"property": prop, "module": "query", "config": out["config"]["name"], "family": att["family"],
                               "why": "observed result violates %s (judged by TLC on the observation): %s" % (v["violated"], v.get("note", "")),
                               "par": att["par"], "ch": att["ch"], "query": att["query"], "obs": att["obs"]})
            elif not v["violated"]:
                res.drift += 1
        kinds = res.extra.setdefault("replays_per_query_kind", {})
        for k, n in out["per_kind"].items():
            kinds[k] = kinds.get(k, 0) + n
    seen = set()
    for out in outcomes:
        if out["tlc"]["key"] not in seen:
            seen.add(out["tlc"]["key"])
            res.add_tlc(out["tlc"])
    res.extra["configs"] = [o["config"] for o in outcomes if o["families"][0] == "mixin"]
    res.extra["also_with_ANYTREE_ASSERTIONS"] = sum(o["n"] for o in outcomes if o["families"][0].endswith("+assertions"))

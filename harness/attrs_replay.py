"""Spec -> code for symlink nodes (M6a, C20)."""
import json
import os
import sys

from . import core

KEYS = ("foo", "_bar", "name")


def _fn():
    """a callable attribute value"""


def pyval(v):
    return _fn if v == "fn" else v


def token(v):
    return "fn" if v is _fn else (v if isinstance(v, str) else "Other:" + repr(v))
BOOK = ("_NodeMixin__children", "_NodeMixin__parent", "target")


def build(pre, plaincls, linkcls):
    from . import nodes as N

    N.new_universe()
    N.Ctx.log = None
    alive = list(pre["alive"])
    done = set()
    # ordinary nodes first, then links whose target exists
    for lbl in alive:
        if pre["tgt"][lbl] == "Nil":
            own = dict(pre["own"][lbl])
            ro = own.pop("_bar", None) == "ro" if own.get("_bar") == "ro" else False
            if ro:
                plaincls_here = N.HNodeRO if plaincls is N.HNode else N.HAnyRO
            else:
                plaincls_here = plaincls
            plaincls, saved_cls = plaincls_here, plaincls
            if plaincls is N.HLightT:
                o = plaincls()
                if "name" in own:
                    o.name = pyval(own["name"])
            elif plaincls in (N.HNode, N.HNodeRO):
                o = plaincls(pyval(own.get("name", lbl)))
            else:
                o = plaincls(name=pyval(own["name"])) if "name" in own else plaincls()
            for k, v in own.items():
                if k != "name":
                    setattr(o, k, pyval(v))
            N.register(o, lbl)
            done.add(lbl)
            plaincls = saved_cls
    while len(done) < len(alive):
        progressed = False
        for lbl in alive:
            if lbl not in done and pre["tgt"][lbl] in done:
                N.register(linkcls(N.Ctx.objs[pre["tgt"][lbl]]), lbl)
                done.add(lbl)
                progressed = True
        if not progressed:
            raise RuntimeError("cyclic targets in vector")
    for pp, kids in pre["ch"].items():
        for c in kids:
            N.Ctx.objs[c].parent = N.Ctx.objs[pp]
    return N.Ctx.objs


def project():
    from . import nodes as N

    par, ch = N.snapshot()
    tgt, reads, own = {}, {}, {}
    for lbl, o in N.Ctx.objs.items():
        d = getattr(o, "__dict__", None)
        t = d.get("target") if d is not None else None
        tgt[lbl] = N.label(t) if t is not None else "Nil"
        r = {}
        for k in KEYS:
            try:
                v = getattr(o, k)
                r[k] = token(v)
            except AttributeError:
                r[k] = "AttributeError"
        reads[lbl] = r
        if d is None:     # __slots__ class
            own[lbl] = {k: token(getattr(o, k)) for k in KEYS if hasattr(o, k)}
        else:
            own[lbl] = {k: token(v) for k, v in d.items() if k != "target" and not k.startswith("_NodeMixin__") and not k.startswith("_LightNodeMixin__")}
    return {"alive": sorted(N.Ctx.objs), "tgt": tgt, "par": par, "ch": ch, "reads": reads, "own": own}


def perform(vec, plain, link):
    from . import nodes as N

    plaincls = {"node": N.HNode, "anynode": N.HAny, "light": N.HLightT}[plain]
    linkcls = {"symlink": N.HSym, "symlinkmixin": N.HSymMixin}[link]
    pre, z = vec["pre"], vec["z"]
    for side in (pre, z):     # an empty TLA+ function is printed as []
        side["own"] = {k: (v if isinstance(v, dict) else {}) for k, v in side["own"].items()}
    try:
        objs = build(pre, plaincls, linkcls)
    except Exception as e:  # noqa: creating links to existing targets failed -- an observation, too
        return {"build_failed": True, "built": "raised %s: %s" % (type(e).__name__, str(e)[:200])}
    built = project()
    want = {"alive": sorted(pre["alive"]), "tgt": pre["tgt"], "par": pre["par"], "ch": pre["ch"]}
    if any(built[k] != want[k] for k in want) or any(built["own"][l] != {k: v for k, v in pre["own"][l].items() if v != "ro"} for l in pre["own"]):
        return {"build_failed": True, "built": built}

    def arg(x):
        return None if x == "Nil" else objs[x]

    exc = "Nil"
    try:
        if z["act"] == "newlink":
            cls = N.HSym
            o = cls.__new__(cls)
            N.register(o, z["n"])
            cls.__init__(o, arg(z["a1"][0]), parent=arg(z["a1"][1]), **{k: pyval(v) for k, v in z["a2"]})
        elif z["act"] == "setattr":
            setattr(objs[z["n"]], z["a1"][0], pyval(z["a1"][1]))
        elif z["act"] == "sp":
            objs[z["n"]].parent = arg(z["a1"][0])
        elif z["act"] == "sc":
            objs[z["n"]].children = [arg(x) for x in z["a1"]]
    except Exception as e:  # noqa
        exc = "AttributeError" if isinstance(e, AttributeError) else N.exc_token(e)
        if z["act"] == "newlink":
            # the constructor raised: the half-made link never came to life
            N.Ctx.objs.pop(z["n"], None)
    return {"pre": dict(built, own=None), "post": project(), "exc": exc}


def light_applicable(vec):
    """Targets of the other mixin family (LightNodeMixin, __slots__) live in trees of their own: only vectors in which the
    ordinary nodes are never related to a link structurally, and which do not need the read-only sentinel."""
    pre, z = vec["pre"], vec["z"]
    plain = {l for l in set(pre["alive"]) | set(z["alive"]) if z["tgt"].get(l, pre["tgt"].get(l)) == "Nil"}
    for side in (pre, z):
        for l in plain:
            if side["par"].get(l, "Nil") != "Nil" or side["ch"].get(l):
                return False
            if isinstance(side["own"].get(l), dict) and "ro" in side["own"][l].values():
                return False
    if z["act"] == "sp":
        return z["n"] not in plain and z["a1"][0] not in plain
    if z["act"] == "sc":
        return z["n"] not in plain and not (set(z["a1"]) & plain)
    if z["act"] == "newlink":
        return z["a1"][1] not in plain
    return True


def same(vec, obs):
    z = vec["z"]
    p = obs["post"]
    return (p["alive"] == sorted(z["alive"]) and p["tgt"] == z["tgt"] and p["par"] == z["par"] and p["ch"] == z["ch"]
            and p["reads"] == z["reads"] and obs["exc"] == z["exc"])


def worker_init(repo):
    os.environ["ANYTREE_ASSERTIONS"] = "0"
    sys.path.insert(0, repo)
    import anytree  # noqa

    assert os.path.abspath(anytree.__file__).startswith(os.path.abspath(repo)), anytree.__file__
    from . import nodes  # noqa

    # the library's recursive properties and iterators use a few frames per tree level: the chains of the large drawn
    # instances (hundreds of levels) must not depend on how deep the harness's own call stack happens to be
    sys.setrecursionlimit(20000)


@core.safe_worker
def replay_chunk(lines):
    out = {"n": 0, "same": 0, "attention": [], "dropped": 0, "own_drift": 0}
    for line in lines:
        vec = json.loads(json.loads(line))
        kws = vec["z"]["act"] == "newlink" and vec["z"]["a2"]
        for plain, link in (("node", "symlink"), ("anynode", "symlinkmixin"), ("anynode", "symlink"), ("light", "symlink")):
            if plain == "light" and not light_applicable(vec):
                continue
            out["n"] += 1
            try:
                obs = core.call_with_deadline(lambda: perform(vec, plain, link))
            except core.Hang:
                obs = {"build_failed": True, "built": "the call did not return within the time limit"}
            if obs.get("build_failed"):
                if len(out["attention"]) < 10:
                    out["attention"].append({"vec": vec, "plain": plain, "link": link, "obs": obs})
                continue
            if same(vec, obs):
                out["same"] += 1
                if obs["post"]["own"] != {l: {k: v for k, v in d.items() if v != "ro"} for l, d in vec["z"]["own"].items()}:
                    out["own_drift"] += 1
            elif len(out["attention"]) < 12:
                out["attention"].append({"vec": vec, "plain": plain, "link": link, "obs": obs})
            else:
                out["dropped"] += 1
    return out

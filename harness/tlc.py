"""Running TLC: configuration files, output parsing, vector cache.

TLC's output depends only on files under /verif/spec and on the generated cfg, never on /repo,
so emitted test vectors are cached under /verif/build/cache keyed by a hash of all of that.
"""
import gzip
import hashlib
import json
import os
import re
import shutil
import subprocess
import sys
import time

VERIF = os.path.dirname(os.path.dirname(os.path.abspath(__file__)))
SPEC = os.path.join(VERIF, "spec")
BUILD = os.path.join(VERIF, "build")
CACHE = os.path.join(BUILD, "cache")
JAR = "/opt/veriftools/tla/tla2tools.jar"


class MachineryError(Exception):
    """TLC crashed, timed out, or the specification itself is inconsistent: exit 2, never a VIOLATION."""


def spec_hash():
    h = hashlib.sha256()
    for name in sorted(os.listdir(SPEC)):
        if name.endswith(".tla"):
            h.update(name.encode())
            with open(os.path.join(SPEC, name), "rb") as f:
                h.update(f.read())
    return h


def cfg_text(constants, init="Init", next_="Next", view=None, symmetry=None, invariants=(), properties=(),
             action_constraints=(), constraints=(), postcondition=None, deadlock=None, spec=None):
    lines = ["CONSTANTS"]
    for k, v in constants.items():
        lines.append(" %s = %s" % (k, tla_const(v)))
    if spec:
        lines.append("SPECIFICATION %s" % spec)
    else:
        lines.append("INIT %s" % init)
        lines.append("NEXT %s" % next_)
    if view:
        lines.append("VIEW %s" % view)
    if symmetry:
        lines.append("SYMMETRY %s" % symmetry)
    for i in invariants:
        lines.append("INVARIANT %s" % i)
    for p in properties:
        lines.append("PROPERTY %s" % p)
    for a in action_constraints:
        lines.append("ACTION_CONSTRAINT %s" % a)
    for c in constraints:
        lines.append("CONSTRAINT %s" % c)
    if postcondition:
        lines.append("POSTCONDITION %s" % postcondition)
    if deadlock is not None:
        lines.append("CHECK_DEADLOCK %s" % ("TRUE" if deadlock else "FALSE"))
    return "\n".join(lines) + "\n"


def tla_const(v):
    if isinstance(v, bool):
        return "TRUE" if v else "FALSE"
    if isinstance(v, int):
        return str(v)
    if isinstance(v, Raw):
        return v.text
    if isinstance(v, str):
        return '"%s"' % v
    if isinstance(v, (set, frozenset, list, tuple)):
        return "{%s}" % ", ".join(tla_const(x) for x in (sorted(v, key=str) if isinstance(v, (set, frozenset)) else v))
    raise TypeError(v)


class Raw:
    """A cfg value written verbatim (model values, model-value sets)."""

    def __init__(self, text):
        self.text = text


def mv_set(prefix, n):
    return Raw("{%s}" % ", ".join("%s%d" % (prefix, i) for i in range(1, n + 1)))


_RE_STATS = re.compile(r"^(\d+) states generated, (\d+) distinct states found, (\d+) states left on queue")
_RE_DEPTH = re.compile(r"^The depth of the complete state graph search is (\d+)")
_RE_COV = re.compile(r"^<(\w+) line (\d+), col (\d+) to line (\d+), col (\d+) of module (\w+)>: (\d+):(\d+)")
_RE_COVLINE = re.compile(r"^\s*\|*line (\d+), col (\d+) to line (\d+), col (\d+) of module (\w+): (\d+)")


def run_tlc(module, cfg, *, tag, workers=16, extra=(), timeout=3600, env=None, use_cache=True, coverage=False,
            keep_prefixes=('"',), java_opts=None):
    """Run TLC on spec/<module>.tla with the given cfg text.

    Lines of TLC's output that start with one of keep_prefixes (PrintT output of JSON strings / tuples) are stored
    gzip-compressed in the cache; everything else is parsed for statistics.  Returns a dict with statistics and
    the path of the stored lines.
    """
    os.makedirs(CACHE, exist_ok=True)
    h = spec_hash()
    h.update(cfg.encode())
    h.update(repr((module, workers if not use_cache else 0, tuple(extra), coverage, keep_prefixes, sorted((env or {}).items()))).encode())
    key = "%s-%s" % (tag, h.hexdigest()[:20])
    out_path = os.path.join(CACHE, key + ".out.gz")
    meta_path = os.path.join(CACHE, key + ".json")
    if use_cache and os.path.exists(out_path) and os.path.exists(meta_path):
        with open(meta_path) as f:
            meta = json.load(f)
        meta["cached"] = True
        meta["lines_path"] = out_path
        return meta
    work = os.path.join(BUILD, "tlc", "%s.%d" % (key, os.getpid()))
    shutil.rmtree(work, ignore_errors=True)
    os.makedirs(work)
    cfg_path = os.path.join(work, module + ".cfg")
    with open(cfg_path, "w") as f:
        f.write(cfg)
    os.makedirs(os.path.join(work, "tmp"), exist_ok=True)
    # (TLC unpacks its standard modules into java.io.tmpdir on every start: keep that inside the work directory, which is removed)
    cmd = ["java", "-XX:+UseParallelGC", "-Xss64m", "-Djava.io.tmpdir=" + os.path.join(work, "tmp")]
    if java_opts:
        cmd += list(java_opts)
    cmd += ["-cp", JAR + ":/opt/veriftools/tla/CommunityModules-deps.jar", "tlc2.TLC",
            "-workers", str(workers), "-metadir", os.path.join(work, "meta"), "-noGenerateSpecTE",
            "-config", cfg_path]
    if coverage:
        cmd += ["-coverage", "1"]
    cmd += list(extra)
    cmd += [os.path.join(SPEC, module + ".tla")]
    e = dict(os.environ)
    e.update(env or {})
    t0 = time.time()
    stats = {"module": module, "tag": tag, "key": key, "cmd": " ".join(cmd[cmd.index("tlc2.TLC"):]), "errors": [],
             "generated": 0, "distinct": 0, "depth": 0, "coverage": {}, "zero_cov": [], "lines": 0}
    tmp_out = "%s.tmp.%d" % (out_path, os.getpid())       # concurrent checks may compute the same key
    log_path = os.path.join(work, "tlc.log")
    # stderr goes to its own file: merged into stdout it can land in the middle of a PrintT line
    errf = open(os.path.join(work, "tlc.stderr"), "w")
    proc = subprocess.Popen(cmd, stdout=subprocess.PIPE, stderr=errf, cwd=work, env=e, text=True, errors="replace")
    err_mode = 0
    try:
        with gzip.open(tmp_out, "wt", compresslevel=1) as gz, open(log_path, "w") as log:
            for line in proc.stdout:
                if line.startswith(keep_prefixes):
                    gz.write(line)
                    stats["lines"] += 1
                    continue
                log.write(line)
                m = _RE_STATS.match(line)
                if m:
                    stats["generated"], stats["distinct"] = int(m.group(1)), int(m.group(2))
                    continue
                m = _RE_DEPTH.match(line)
                if m:
                    stats["depth"] = int(m.group(1))
                    continue
                m = _RE_COV.match(line)
                if m:
                    stats["coverage"]["%s@%s:%s" % (m.group(1), m.group(6), m.group(2))] = [int(m.group(7)), int(m.group(8))]
                    continue
                m = _RE_COVLINE.match(line)
                if m:
                    # TLC lists the expressions it evaluated (never-evaluated ones are simply absent from the report)
                    if int(m.group(6)) > 0 and m.group(5) in ("NodeOps",):
                        stats.setdefault("cov_points", []).append([int(m.group(1)), int(m.group(2))])
                    continue
                if line.startswith("Error:") or "Exception" in line and "at " not in line[:4]:
                    if len(stats["errors"]) < 20:
                        stats["errors"].append(line.strip())
                    err_mode = 30
                elif err_mode > 0:
                    err_mode -= 1
                    if len(stats["errors"]) < 60 and line.strip():
                        stats["errors"].append(line.rstrip()[:400])
                if time.time() - t0 > timeout:
                    proc.kill()
                    stats["errors"].append("timeout after %ss" % timeout)
                    break
        rc = proc.wait()
    finally:
        if proc.poll() is None:
            proc.kill()
        errf.close()
    stats["rc"] = rc
    stats["wall_s"] = round(time.time() - t0, 2)
    stats["cached"] = False
    ok = rc == 0 and not stats["errors"]
    stats["ok"] = ok
    if ok:
        os.replace(tmp_out, out_path)
        with open("%s.tmp.%d" % (meta_path, os.getpid()), "w") as f:
            json.dump(stats, f)
        os.replace("%s.tmp.%d" % (meta_path, os.getpid()), meta_path)
        shutil.rmtree(work, ignore_errors=True)
    else:
        os.replace(tmp_out, os.path.join(work, "lines.gz"))
        stats["work"] = work
    stats["lines_path"] = out_path if ok else os.path.join(work, "lines.gz")
    return stats


def require_ok(stats):
    if not stats.get("ok", True) and not stats.get("cached"):
        raise MachineryError("TLC run %s failed (rc=%s): %s (log under %s)" % (
            stats["tag"], stats.get("rc"), " | ".join(stats["errors"][:8]), stats.get("work")))
    return stats


def iter_json_lines(path):
    """Yield the JSON objects PrintT(ToJson(..)) printed (each line is a quoted TLA+ string holding JSON)."""
    with gzip.open(path, "rt") as f:
        for line in f:
            if line.startswith('"{') or line.startswith('"['):
                yield json.loads(json.loads(line))


def read_lines(path):
    with gzip.open(path, "rt") as f:
        return f.readlines()


def run_vectors(module, cfg, tag, expected, timeout=7200, workers=16, extra=()):
    """TLC run that emits one vector per transition; `expected(stats)` is the number of lines that must have been emitted.
    A torn line (16 workers printing) is a machinery hiccup: run once more with one worker before giving up."""
    stats = run_tlc(module, cfg, tag=tag, timeout=timeout, workers=workers, extra=extra)
    require_ok(stats)
    if stats["lines"] == expected(stats):
        return stats
    for f in (stats["lines_path"], os.path.join(CACHE, stats["key"] + ".json")):
        if os.path.exists(f):
            os.remove(f)
    stats = run_tlc(module, cfg, tag=tag + "-w1", timeout=timeout, workers=1, use_cache=False, extra=extra)
    require_ok(stats)
    if stats["lines"] != expected(stats):
        raise MachineryError("%s: %d vectors emitted for %d transitions" % (tag, stats["lines"], expected(stats)))
    return stats

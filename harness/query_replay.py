"""Spec -> code for the read-only API (M2): navigation, util helpers, iterators, Walker, search."""
import json
import re
import sys

from . import core

NOMAX = 100000
NOBOUND = -1


def L(i):
    return "Nil" if i == 0 else "n%d" % i


def Ls(xs):
    return [L(i) for i in xs]


def forest_of(k, p):
    par = {L(i + 1): L(p[i]) for i in range(k)}
    ch = {L(i + 1): [] for i in range(k)}
    for i in range(k):
        if p[i]:
            ch[L(p[i])].append(L(i + 1))
    return par, ch


def to_labels(z):
    """Vector (integer node ids) -> query in label space, with the expected result."""
    q = z["q"]
    r = z["res"] if "res" in z else None
    out = {"q": q}
    if q == "nav":
        out["n"] = L(z["n"])
        e = dict(r)
        for f in ("path", "ancestors", "siblings", "descendants", "leaves", "left", "right", "children"):
            e[f] = Ls(r[f])
        e["root"] = L(r["root"])
        e["parent"] = L(r["parent"])
        out["res"] = e
    elif q == "common":
        out["ns"] = Ls(z["ns"])
        out["res"] = Ls(r)
    elif q == "iters":
        out.update(s=L(z["s"]), st=sorted(Ls(z["st"])), fl=sorted(Ls(z["fl"])), ml=z["ml"])
        out["res"] = iters_labels(r)
    elif q == "walk":
        out.update(s=L(z["s"]), e=L(z["e"]))
        out["res"] = {"err": r["err"], "up": Ls(r["up"]), "common": Ls(r["common"]), "down": Ls(r["down"])}
    elif q == "findall":
        out.update(s=L(z["s"]), st=sorted(Ls(z["st"])), fl=sorted(Ls(z["fl"])), ml=z["ml"], minc=z["minc"], maxc=z["maxc"])
        out["res"] = found_labels(r)
    elif q == "find":
        out.update(s=L(z["s"]), st=sorted(Ls(z["st"])), fl=sorted(Ls(z["fl"])), ml=z["ml"])
        out["res"] = found_labels(r)
    elif q == "byattr":
        attr = z["attr"]
        if isinstance(attr, list):
            attr = {L(i + 1): v for i, v in enumerate(attr)}
        else:
            attr = {L(int(i)): v for i, v in attr.items()}
        out.update(s=L(z["s"]), attr=attr, value=z["value"], ml=z["ml"], minc=z["minc"], maxc=z["maxc"])
        out["all"] = found_labels(z["all"])
        out["one"] = found_labels(z["one"])
    else:
        raise ValueError(q)
    return out


def iters_labels(r):
    return {"pre": Ls(r["pre"]), "post": Ls(r["post"]), "level": Ls(r["level"]),
            "groups": [Ls(g) for g in r["groups"]], "zigzag": [Ls(g) for g in r["zigzag"]]}


def found_labels(r):
    return {"err": r["err"], "val": Ls(r["val"]), "want": r["want"], "got": r["got"]}


# ---------------------------------------------------------------------------------------------------- running queries
def run_iters(N, start, fl, st, ml, with_base=True, only_base=False):
    from anytree import LevelOrderGroupIter, LevelOrderIter, PostOrderIter, PreOrderIter, ZigZagGroupIter

    lab = N.label
    fls, sts = set(fl), set(st)

    def mk(base):
        if base:
            return {}
        return dict(filter_=lambda n: lab(n) in fls, stop=lambda n: lab(n) in sts, maxlevel=None if ml == NOMAX else ml)

    def consume(cls, kw):
        """The iterator protocol, not just one pass: a for-loop left with break, the rest taken with list(), and an
        exhausted iterator stays exhausted; iter(it) is it.  Must give the same items as one plain pass."""
        plain = list(cls(start, **kw))
        it = cls(start, **kw)
        items = []
        for x in it:
            items.append(x)
            break
        same_obj = iter(it) is it
        items += list(it)
        again = list(it)
        def ids(seq):       # identity only: never compare nodes with ==
            return [tuple(id(y) for y in x) if isinstance(x, tuple) else id(x) for x in seq]

        if not (ids(items) == ids(plain) and same_obj and len(again) == 0):
            return items + ["<protocol>"] + list(again)       # observable difference: reported as the observed result
        return plain

    def all_(base):
        kw = mk(base)
        flat = lambda cls: [lab(x) if not isinstance(x, str) else x for x in consume(cls, kw)]
        grp = lambda cls: [[lab(x) for x in g] if not isinstance(g, str) else [g] for g in consume(cls, kw)]
        return {"pre": flat(PreOrderIter), "post": flat(PostOrderIter), "level": flat(LevelOrderIter),
                "groups": grp(LevelOrderGroupIter), "zigzag": grp(ZigZagGroupIter)}

    res = None if only_base else all_(False)
    base = all_(True) if with_base else None
    return res, base


def found_obs(fn):
    from anytree.search import CountError

    try:
        r = fn()
    except CountError as e:
        nums = [int(x) for x in re.findall(r"-?\d+", str(e).split(" (")[0].split(" [")[0])]
        # the two numbers the message names (everything after them is the repr of the result tuple)
        m = re.match(r"Expecting (?:at least )?(-?\d+) elements(?: at maximum)?, but found (-?\d+)\.", str(e))
        if m:
            nums = [int(m.group(1)), int(m.group(2))]
        return {"err": "CountError", "val": [], "nums": nums[:4]}
    return r


def perform(query, family, par, ch, objs=None):
    """Run one query on fresh (or given live) objects; returns the observation in label space."""
    from . import nodes as N
    import anytree
    from anytree import Walker, util
    from anytree.walker import WalkError

    if objs is None:
        try:
            N.build_forest(family, par, ch)
        except Exception as e:  # noqa
            return {"build_failed": True, "built": "raised %s" % type(e).__name__}
        built = N.snapshot()
        if built[0] != par or built[1] != ch:
            return {"build_failed": True, "built": built}
        objs = N.Ctx.objs
    lab = N.label
    q = query["q"]
    obs = {"q": q}
    if q == "nav":
        n = objs[query["n"]]
        left, right = util.leftsibling(n), util.rightsibling(n)
        obs["res"] = {
            "path": [lab(x) for x in n.path], "ancestors": [lab(x) for x in n.ancestors], "root": lab(n.root),
            "depth": n.depth, "is_root": n.is_root, "is_leaf": n.is_leaf, "siblings": [lab(x) for x in n.siblings],
            "descendants": [lab(x) for x in n.descendants], "leaves": [lab(x) for x in n.leaves], "size": n.size,
            "height": n.height, "left": [] if left is None else [lab(left)], "right": [] if right is None else [lab(right)],
            "children": [lab(x) for x in n.children], "parent": lab(n.parent)}
        obs["extra"] = {"iter_path_reverse": [lab(x) for x in n.iter_path_reverse()]}
    elif q == "common":
        obs["res"] = [lab(x) for x in util.commonancestors(*[objs[x] for x in query["ns"]])]
    elif q == "iters":
        try:
            _, obs["base"] = run_iters(N, objs[query["s"]], query["fl"], query["st"], query["ml"], with_base=True, only_base=True)
        except Exception as e:  # noqa
            obs["base_raised"] = "%s: %s" % (type(e).__name__, str(e)[:200])
        try:
            obs["res"], _ = run_iters(N, objs[query["s"]], query["fl"], query["st"], query["ml"], with_base=False)
        except Exception as e:  # noqa
            obs["res_raised"] = "%s: %s" % (type(e).__name__, str(e)[:200])
    elif q == "walk":
        try:
            up, common, down = Walker().walk(objs[query["s"]], objs[query["e"]])
            obs["res"] = {"err": "none", "up": [lab(x) for x in up], "common": [lab(common)], "down": [lab(x) for x in down]}
        except WalkError:
            obs["res"] = {"err": "WalkError", "up": [], "common": [], "down": []}
    elif q in ("findall", "find"):
        from anytree import PreOrderIter, cachedsearch, search

        fls, sts = set(query["fl"]), set(query["st"])
        kw = dict(filter_=lambda n: lab(n) in fls, stop=lambda n: lab(n) in sts, maxlevel=None if query["ml"] == NOMAX else query["ml"])
        start = objs[query["s"]]
        obs["iter"] = [lab(x) for x in PreOrderIter(start, **kw)]
        res = {}
        for modname, mod in (("search", search), ("cachedsearch", cachedsearch)):
            if q == "findall":
                b = dict(mincount=None if query["minc"] == NOBOUND else query["minc"], maxcount=None if query["maxc"] == NOBOUND else query["maxc"])
                r = found_obs(lambda: mod.findall(start, **kw, **b))
                res[modname] = r if isinstance(r, dict) else {"err": "none", "val": [lab(x) for x in r], "nums": []}
            else:
                r = found_obs(lambda: mod.find(start, **kw))
                res[modname] = r if isinstance(r, dict) else {"err": "none", "val": [] if r is None else [lab(r)], "nums": []}
        obs["res"] = res
    elif q == "byattr":
        from anytree import PreOrderIter, cachedsearch, search

        name = query.get("attrname", "foo")

        def pyval(v):
            return None if v == "none" else v

        for lbl, v in query["attr"].items():
            if v != "absent" and name == "foo":
                setattr(objs[lbl], name, pyval(v))
        start = objs[query["s"]]
        ml = None if query["ml"] == NOMAX else query["ml"]
        want = set(l for l, v in query["attr"].items() if v == query["value"])
        obs["iter"] = [lab(x) for x in PreOrderIter(start, filter_=lambda n: lab(n) in want, maxlevel=ml)]
        b = dict(mincount=None if query["minc"] == NOBOUND else query["minc"], maxcount=None if query["maxc"] == NOBOUND else query["maxc"])
        res = {}
        for modname, mod in (("search", search), ("cachedsearch", cachedsearch)):
            r = found_obs(lambda: mod.findall_by_attr(start, pyval(query["value"]), name=name, maxlevel=ml, **b))
            res[modname + ".all"] = r if isinstance(r, dict) else {"err": "none", "val": [lab(x) for x in r], "nums": []}
            r = found_obs(lambda: mod.find_by_attr(start, pyval(query["value"]), name=name, maxlevel=ml))
            res[modname + ".one"] = r if isinstance(r, dict) else {"err": "none", "val": [] if r is None else [lab(r)], "nums": []}
        obs["res"] = res
    else:
        raise ValueError(q)
    return obs


def found_matches(exp, got):
    """Transport-level comparison of a search result with the emitted definition."""
    if exp["err"] != got["err"]:
        return False
    if exp["err"] == "none":
        return exp["val"] == got["val"]
    return got["nums"] == [exp["want"], exp["got"]]


def same(query, obs):
    q = query["q"]
    if obs.get("build_failed"):
        return False
    if q in ("nav", "common", "walk"):
        ok = obs["res"] == query["res"]
        if q == "nav" and ok:
            ok = obs["extra"]["iter_path_reverse"] == list(reversed(query["res"]["path"]))
        return ok
    if q == "iters":
        return "res" in obs and "base" in obs and obs["res"] == query["res"]
    if q in ("findall", "find"):
        return all(found_matches(query["res"], r) for r in obs["res"].values())
    if q == "byattr":
        return all(found_matches(query["all"] if k.endswith(".all") else query["one"], r) for k, r in obs["res"].items())
    raise ValueError(q)


PROP_OF = {"nav": "C04", "common": "C04", "iters": "C05/C06", "walk": "C15", "findall": "C14", "find": "C14", "byattr": "C14"}


def worker_init(repo, assertions=False):
    import os

    os.environ["ANYTREE_ASSERTIONS"] = "1" if assertions else "0"
    sys.path.insert(0, repo)
    import anytree  # noqa

    assert os.path.abspath(anytree.__file__).startswith(os.path.abspath(repo)), anytree.__file__
    from . import nodes  # noqa

    # the library's recursive properties and iterators use a few frames per tree level: the chains of the large drawn
    # instances (hundreds of levels) must not depend on how deep the harness's own call stack happens to be
    sys.setrecursionlimit(20000)


def _depth(p):
    d = [0] * (len(p) + 1)
    for i, q in enumerate(p, 1):
        d[i] = 0 if q == 0 else d[q] + 1
    return max(d)


@core.safe_worker
def replay_chunk(args):
    lines, families, lockstep = args
    out = {"n": 0, "same": 0, "attention": [], "per_kind": {}, "lockstep_diff": [], "dropped": 0}
    strata = {}
    for line in lines:
        vec = json.loads(json.loads(line))
        par, ch = forest_of(vec["k"], vec["p"])
        query = to_labels(vec["z"])
        observed = {}
        for fam in families:
            out["n"] += 1
            out["per_kind"][query["q"]] = out["per_kind"].get(query["q"], 0) + 1
            try:
                obs = core.call_with_deadline(lambda: perform(query, fam, par, ch))
            except (Exception, core.Hang) as e:  # noqa: an unexpected exception (or a call that never returns) is an observation, too
                obs = {"q": query["q"], "raised": "%s: %s" % (type(e).__name__, str(e)[:200])}
            if obs.get("raised", "").startswith("RecursionError") and vec["k"] > 100 and _depth(vec["p"]) > 100:
                # the interpreter's own recursion limits (the C stack's, which sys.setrecursionlimit does not lift) on a tree
                # hundreds of levels deep -- e.g. SymlinkNode.height on a 300-level chain: not an observation about the library
                out["n"] -= 1
                out["recursion_limit"] = out.get("recursion_limit", 0) + 1
                continue
            observed[fam] = obs
            if "raised" not in obs and same(query, obs):
                out["same"] += 1
            else:
                key = (fam, query["q"])
                strata[key] = strata.get(key, 0) + 1
                if strata[key] <= 6:
                    out["attention"].append({"family": fam, "par": par, "ch": ch, "query": query, "obs": obs})
                else:
                    out["dropped"] += 1
        for pair in (lockstep or ()):
            if all(f in observed for f in pair):
                a, b = observed[pair[0]], observed[pair[1]]
                if a != b and len(out["lockstep_diff"]) < 8:
                    out["lockstep_diff"].append({"par": par, "ch": ch, "query": query, "pair": list(pair), pair[0]: a, pair[1]: b})
    return out

"""Behaviour-preserving refactorings (from sub-agents): the checks must stay silent on them.

usage: /venv/bin/python -m harness.benigntool <worktree> <bdir> <id>
Applies <bdir>/patch.diff in a scratch worktree of /repo, confirms that the existing suite still passes (160/3), runs every check
(quick) and stores patch + meta.json (which checks raised an alarm, if any) under $VERIF_SEEDED_DIR/<id>/.
"""
import json
import os
import shutil
import sys

from . import seedtool

VERIF = seedtool.VERIF


def main(argv):
    wt, bdir, bid = argv[:3]
    meta = json.load(open(os.path.join(bdir, "meta.json")))
    patch = os.path.join(bdir, "patch.diff")
    seedtool.sh("git checkout -- . && git clean -fdq -e out", cwd=wt)
    rc, out = seedtool.sh("git apply %s" % patch, cwd=wt)
    if rc:
        print("benign %s: patch does not apply" % bid)
        return 1
    rc, tests = seedtool.sh("%s -m pytest -q -p no:cacheprovider 2>&1 | tail -1" % seedtool.PY, cwd=wt)
    seedtool.sh("git checkout -- . && git clean -fdq -e out", cwd=wt)
    if "160 passed" not in tests or "3 failed" not in tests:
        print("benign %s: existing suite changed (%s) - not kept" % (bid, tests.strip()))
        return 1
    from . import props

    checks = sorted(props.CHECKS)
    for a in argv[3:]:
        if a.startswith("--checks="):
            checks = a.split("=", 1)[1].split(",")
    results = seedtool.run_checks(patch, checks, "quick")
    wall = results.pop("_wall_s", None)
    alarms = sorted(c for c, r in results.items() if isinstance(r, dict) and r.get("rc") == 1)
    broken = sorted(c for c, r in results.items() if isinstance(r, dict) and r.get("rc") not in (0, 1))
    dest = os.path.join(os.environ.get("VERIF_SEEDED_DIR") or os.path.join(VERIF, "seeded"), bid)
    os.makedirs(dest, exist_ok=True)
    shutil.copy(patch, os.path.join(dest, "patch.diff"))
    meta.update({"kind": "behaviour-preserving refactoring (no check may raise an alarm)", "tests": tests.strip(), "alarms": alarms,
                 "machinery_errors": broken, "checks": results, "check_wall_s": wall})
    json.dump(meta, open(os.path.join(dest, "meta.json"), "w"), indent=1)
    print("benign %s: alarms %s; machinery errors %s" % (bid, alarms, broken))
    for c in alarms:
        print("   %s %s" % (c, results[c].get("first_why", "")[:200]))
    return 0


if __name__ == "__main__":
    sys.exit(main(sys.argv[1:]))

"""Command line of ./check."""
import argparse
import json
import os
import sys
import traceback

from . import core
from . import tlc as T


def main(argv):
    ap = argparse.ArgumentParser(prog="check")
    ap.add_argument("what", help="property id (C01..C20), or: replay, setup, selftest, list")
    ap.add_argument("path", nargs="?")
    ap.add_argument("--tier", default=os.environ.get("VERIF_TIER", "quick"), choices=("quick", "thorough"))
    args = ap.parse_args(argv)
    # overall watchdog: whatever happens, a check terminates (exit 2) instead of hanging
    import signal

    def _watchdog(signum, frame):
        print("MACHINERY-ERROR: the check did not finish within its overall time limit")
        os._exit(2)

    import faulthandler

    faulthandler.register(signal.SIGUSR1, all_threads=True)      # kill -USR1 <pid> dumps the Python stacks (debugging aid)
    signal.signal(signal.SIGALRM, _watchdog)
    signal.alarm(int(os.environ.get("VERIF_CHECK_TIMEOUT", 2700 if args.tier == "quick" else 6 * 3600)))
    try:
        from . import props

        if args.what == "setup":
            return props.setup()
        if args.what == "list":
            print(" ".join(sorted(props.CHECKS)))
            return 0
        if args.what == "replay":
            from . import replaycmd

            return replaycmd.replay(args.path)
        if args.what == "selftest":
            from . import selftest

            return selftest.main(args.tier)
        if "," in args.what:
            # several properties in one process: the model runs / replays they share are done once
            worst = 0
            for pid in args.what.split(","):
                if pid not in props.CHECKS:
                    print("unknown property %s" % pid)
                    return 2
                try:
                    res = core.Result(pid, args.tier)
                    props.CHECKS[pid](res)
                    rc = core.finish(res)
                except T.MachineryError as e:
                    print("MACHINERY-ERROR: property=%s %s" % (pid, e))
                    rc = 2
                print("RESULT property=%s rc=%d" % (pid, rc))
                worst = max(worst, rc)
            return worst
        if args.what not in props.CHECKS:
            print("unknown property %s" % args.what)
            return 2
        res = core.Result(args.what, args.tier)
        props.CHECKS[args.what](res)
        return core.finish(res)
    except T.MachineryError as e:
        print("MACHINERY-ERROR: %s" % e)
        return 2
    except Exception:  # noqa
        traceback.print_exc()
        print("MACHINERY-ERROR: unexpected exception in the harness")
        return 2

"""Module M3 (Resolver): TLC runs, replay, judging.  Serves C07 C08."""
import random

from . import core, judge, resolver_replay
from . import tlc as T

ALL_SCHEMES = (1, 2, 3, 4, 5, 6, 7, 8, 9)


def cfg(name, MaxN, MaxComps, queries, schemes=ALL_SCHEMES, Wild=True, variants=resolver_replay.VARIANTS):
    return dict(name=name, MaxN=MaxN, MaxComps=MaxComps, queries=tuple(queries), schemes=tuple(schemes), Wild=Wild, variants=tuple(variants))


CONFIGS = {
    ("C07", "quick"): [cfg("get-t3", 3, 2, ("get",), variants=resolver_replay.VARIANTS + ("adv:zerolen", "adv:alwayseq")),
                       cfg("get-t4", 4, 2, ("get",), Wild=False, variants=("node/", "anyid"))],
    ("C07", "thorough"): [cfg("get-t4w", 4, 2, ("get",)), cfg("get-t3c3", 3, 3, ("get",), Wild=False), cfg("get-t5", 5, 2, ("get",), schemes=(1, 2, 5), Wild=False, variants=("node/",))],
    ("C17", "quick"): [cfg("glob-t3", 3, 2, ("glob",), variants=("node/", "adv:alwayseq", "adv:nevereq", "adv:falsy", "adv:unhashable", "adv:tripwire")),
                       cfg("get-t3", 3, 2, ("get",), variants=("node/", "adv:alwayseq", "adv:zerolen", "adv:tripwire"))],
    ("C17", "thorough"): [cfg("glob-t3", 3, 2, ("glob",), variants=("node/", "adv:alwayseq", "adv:nevereq", "adv:falsy", "adv:zerolen", "adv:unhashable", "adv:container", "adv:ordering", "adv:tripwire")),
                          cfg("get-t3", 3, 2, ("get",), variants=("node/", "adv:alwayseq", "adv:nevereq", "adv:falsy", "adv:zerolen", "adv:unhashable", "adv:container", "adv:ordering", "adv:tripwire"))],
    ("C08", "quick"): [cfg("glob-t3", 3, 2, ("glob",), variants=resolver_replay.VARIANTS + ("adv:alwayseq", "adv:falsy")),
                       cfg("glob-t4", 4, 2, ("glob",), schemes=(1, 3, 5), variants=("node/",))],
    ("C08", "thorough"): [cfg("glob-t4a", 4, 2, ("glob",), variants=resolver_replay.VARIANTS + ("adv:alwayseq", "adv:falsy")),
                          cfg("glob-t3c3", 3, 3, ("glob",), variants=("node/", "mixin::"))],
}

def big(name, queries, lo, hi, instances, per, variants=("node/", "anyid", "mixin::")):
    c = cfg(name, 3, 2, queries, schemes=(1,), variants=variants)
    c["big"] = dict(BigMin=lo, BigMax=hi, Instances=instances, PerShape=per)
    return c


CONFIGS[("C07", "quick")] += [big("big-get-60", ("get",), 10, 60, 48, 40), big("big-get-300", ("get",), 100, 300, 6, 30, variants=("node/",))]
CONFIGS[("C08", "quick")] += [big("big-glob-60", ("glob",), 10, 60, 48, 40), big("big-glob-150", ("glob",), 80, 150, 6, 20, variants=("node/",))]
CONFIGS[("C07", "thorough")] += [big("big-get-80", ("get",), 10, 80, 400, 60), big("big-get-300t", ("get",), 100, 300, 24, 40, variants=("node/",))]
CONFIGS[("C08", "thorough")] += [big("big-glob-80", ("glob",), 10, 80, 400, 60), big("big-glob-200", ("glob",), 80, 200, 24, 30, variants=("node/",))]

CHECKS = dict(invariants=("Lem_Get", "Lem_Match"), properties=("Thm_Get", "Thm_Glob"))


def tlc_cfg(c):
    if c.get("big"):
        consts = {"Nil": 0, "MaxN": c["MaxN"], "MaxComps": c["MaxComps"], "Queries": set(c["queries"]), "SchemeIds": set(c["schemes"]), "Wild": c["Wild"]}
        consts.update(c["big"])
        return T.cfg_text(consts, init="BigInit", next_="BigNext", view="View", properties=("BigThm_Get", "BigThm_Glob"),
                          action_constraints=("BigEmit",), deadlock=False)
    return T.cfg_text({"Nil": 0, "MaxN": c["MaxN"], "MaxComps": c["MaxComps"], "Queries": set(c["queries"]),
                       "SchemeIds": set(c["schemes"]), "Wild": c["Wild"]},
                      view="View", action_constraints=("Emit",), deadlock=False, **CHECKS)


def run_model(c, coverage=False):
    if c.get("big"):
        return T.run_vectors("MC_ResolverBig", tlc_cfg(c), c["name"], lambda st: st["distinct"] * c["big"]["PerShape"], workers=1,
                             extra=("-seed", str(13 + core.seed())))
    return T.run_vectors("MC_Resolver", tlc_cfg(c), c["name"], lambda st: st["generated"] - st["distinct"])


_memo = {}


def run(prop, tier, repo=None, procs=16):
    repo = repo or core.repo_path()
    key = (prop, tier, repo)
    if key in _memo:
        return _memo[key]
    outcomes = []
    for c in CONFIGS[(prop, tier)]:
        stats = run_model(c)
        lines = T.read_lines(stats["lines_path"])
        with core.pool(resolver_replay.worker_init, (repo,), procs) as p:
            size = max(50, min(4000, len(lines) // (procs * 4) + 1))
            parts = core.pmap(p, resolver_replay.replay_chunk, [(ch, c["variants"]) for ch in core.chunks(lines, size)])
        tot = {"n": 0, "same": 0, "attention": [], "per_kind": {}, "dropped": 0, "skipped": 0, "lockstep_diff": []}
        for r in parts:
            tot["lockstep_diff"] += r["lockstep_diff"]
            for k in ("n", "same", "dropped", "skipped"):
                tot[k] += r[k]
            tot["attention"] += r["attention"]
            for f, k in r["per_kind"].items():
                tot["per_kind"][f] = tot["per_kind"].get(f, 0) + k
        tot.update(config=c, tlc=stats, vectors=len(lines))
        outcomes.append(tot)
        # internal assertions switched on (a third of the vectors, first class variant)
        sub = lines[core.seed() % 3::3]
        with core.pool(resolver_replay.worker_init, (repo, True), procs) as p:
            size = max(50, min(4000, len(sub) // (procs * 4) + 1))
            parts = core.pmap(p, resolver_replay.replay_chunk, [(ch, c["variants"][:1]) for ch in core.chunks(sub, size)])
        tot2 = {"n": sum(r["n"] for r in parts), "same": sum(r["same"] for r in parts), "attention": [a for r in parts for a in r["attention"]],
                "per_kind": {"with ANYTREE_ASSERTIONS=1": sum(r["n"] for r in parts)}, "dropped": 0, "skipped": 0, "lockstep_diff": []}
        tot2.update(config=c, tlc=stats, vectors=len(sub))
        outcomes.append(tot2)
    _judge(outcomes)
    _memo[key] = outcomes
    return outcomes


def event_of(att, ident):
    q, o = att["query"], att["obs"]
    e = {"id": ident, "q": q["q"], "par": att["par"], "ch": att["ch"], "names": q["names"], "s": q["s"], "cs": q["cs"], "ic": q["ic"]}
    if q["q"] == "get":
        e.update(relax=q["relax"], res=o["res"])
    else:
        e.update(runs=o["runs"])
    return e


def _judge(outcomes, cap=4000):
    events, index = [], {}
    for oi, out in enumerate(outcomes):
        for ai, att in enumerate(out["attention"]):
            if att["obs"].get("build_failed"):
                att["verdict"] = {"violated": [], "note": "pre-state could not be built"}
                continue
            if len(events) >= cap:
                continue
            ident = "%d.%d" % (oi, ai)
            events.append(event_of(att, ident))
            index[ident] = att
    if events:
        verdicts, _ = judge.run_judge("TraceResolver", events, {"Nil": "Nil"}, tag="judge-resolver")
        for i, v in verdicts.items():
            index[i]["verdict"] = {"violated": sorted(v)}


def classify(outcomes, res, prop):
    seen = set()
    for out in outcomes:
        res.replayed += out["n"]
        if out["tlc"]["key"] not in seen:
            seen.add(out["tlc"]["key"])
            res.add_tlc(out["tlc"])
        for att in out["attention"]:
            v = att.get("verdict")
            if v is None:
                continue
            if core.interpreter_limit(str(att["obs"]), att["par"]):
                res.extra["skipped_at_the_interpreters_recursion_limit"] = res.extra.get("skipped_at_the_interpreters_recursion_limit", 0) + 1
                continue
            if prop in v["violated"]:
                res.violation({"property": prop, "module": "resolver", "config": out["config"]["name"], "variant": att["variant"],
                               "why": "observed result violates %s (judged by TLC): path %r" % (prop, att["obs"].get("path")),
                               "par": att["par"], "ch": att["ch"], "query": att["query"], "obs": att["obs"]})
            elif not v["violated"]:
                res.drift += 1
        kinds = res.extra.setdefault("replays_per_query_and_class_variant", {})
        for k, n in out["per_kind"].items():
            kinds[k] = kinds.get(k, 0) + n
        res.extra["skipped_separator_in_name"] = res.extra.get("skipped_separator_in_name", 0) + out["skipped"]
    res.extra["configs"] = [o["config"] for o in outcomes]

"""./check replay <path>: re-execute one stored violation record against the current tree and show expected vs observed."""
import json
import subprocess
import sys

from . import core

CODE = r'''
import json, sys
sys.path.insert(0, %(verif)r)
rec = json.load(open(%(path)r))
mod = rec.get("module")
out = {"module": mod}
if mod == "ops":
    from harness import ops_replay
    ops_replay.worker_init(%(repo)r, bool(rec.get("asrt")))
    pred = rec["pred"]
    obs = ops_replay.perform(pred, rec.get("family", "mixin"), rec.get("obs", {}).get("iterable_form", 0) if isinstance(rec.get("obs"), dict) else 0)
    out["expected (as-built model)"] = {k: pred[k] for k in ("exc", "src", "postpar", "postch")}
    out["observed now"] = {k: obs.get(k) for k in ("exc", "src", "postpar", "postch", "build_failed")}
    out["same as model"] = (not obs.get("build_failed")) and ops_replay.same(pred, obs)
    out["call"] = {k: pred[k] for k in ("k", "n", "v", "xs", "bad", "plan", "prepar", "prech")}
elif mod == "query":
    from harness import query_replay
    query_replay.worker_init(%(repo)r)
    obs = query_replay.perform(rec["query"], rec.get("family", "mixin"), rec["par"], rec["ch"])
    out["query"] = rec["query"]
    out["observed now"] = obs
    out["same as definition"] = query_replay.same(rec["query"], obs)
elif mod == "resolver":
    from harness import resolver_replay
    resolver_replay.worker_init(%(repo)r)
    obs = resolver_replay.perform(rec["query"], rec.get("variant", "node/"), rec["par"], rec["ch"])
    out["query"] = rec["query"]
    out["observed now"] = obs
    out["same as model"] = resolver_replay.same(rec["query"], obs)
elif mod == "attrs":
    from harness import attrs_replay
    attrs_replay.worker_init(%(repo)r)
    obs = attrs_replay.perform(rec["vec"], rec.get("plain", "node"), rec.get("link", "symlink"))
    out["action"] = rec["vec"]["z"]
    out["observed now"] = obs
    out["same as model"] = (not obs.get("build_failed")) and attrs_replay.same(rec["vec"], obs)
elif mod == "clone":
    from harness import clone_replay
    clone_replay.worker_init(%(repo)r)
    obs = clone_replay.perform(rec["vec"])
    out["observed now"] = obs
    out["same as model"] = (not obs.get("build_failed")) and clone_replay.same(rec["vec"], obs)
else:
    out["note"] = "records of module %%r are re-checked by re-running the check of the property; the stored record follows" %% mod
    out["record"] = {k: v for k, v in rec.items() if k not in ("par", "ch")}
print(json.dumps(out, indent=1, sort_keys=True, default=str))
'''


def replay(path):
    if not path:
        print("usage: ./check replay <path>")
        return 2
    code = CODE % {"verif": core.VERIF, "path": path, "repo": core.repo_path()}
    p = subprocess.run([core.PYTHON, "-c", code], capture_output=True, text=True)
    sys.stdout.write(p.stdout)
    sys.stderr.write(p.stderr[-2000:])
    with open(path) as f:
        rec = json.load(f)
    print("property=%s why=%s" % (rec.get("property"), str(rec.get("why"))[:300]))
    return 0 if p.returncode == 0 else 2

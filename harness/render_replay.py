"""Spec -> code for RenderTree (M4, C09)."""
import json
import sys

from . import core
from .query_replay import L, NOMAX, forest_of

FALSY = (0, 0.0, False, None, 7, "")
STYLE_NAMES = ("ascii", "cont", "contround", "double", "w1", "w3", "asciiclass")


def styles():
    from anytree import AbstractStyle, AsciiStyle, ContRoundStyle, ContStyle, DoubleStyle

    return {"ascii": AsciiStyle(), "cont": ContStyle(), "contround": ContRoundStyle(), "double": DoubleStyle(),
            "w1": AbstractStyle("|", "+", "`"), "w3": AbstractStyle("|  ", "|- ", "`- "), "asciiclass": AsciiStyle}


def seg_strings(style):
    if isinstance(style, type):
        style = style()
    return {"V": style.vertical, "C": style.cont, "E": style.end, "B": style.empty}


def render(tokens, segs):
    return "".join(segs[t] for t in tokens)


def derender(s, segs):
    w = len(segs["E"])
    inv = {v: k for k, v in segs.items()}
    if w == 0 or len(s) % w:
        return ["?"]
    return [inv.get(s[i:i + w], "?") for i in range(0, len(s), w)]


def to_labels(vec):
    z = vec["z"]
    ci = z["ci"]
    key = ci["key"]
    if isinstance(key, list):
        key = {L(i + 1): v for i, v in enumerate(key)}
    else:
        key = {L(int(i)): v for i, v in key.items()}
    nl = z["nl"]
    nl = {L(i + 1): v for i, v in enumerate(nl)} if isinstance(nl, list) else {L(int(i)): v for i, v in nl.items()}
    return {"q": "render", "s": L(z["s"]), "ci": {"kind": ci["kind"], "hide": sorted(L(x) for x in ci["hide"]), "key": key},
            "ml": z["ml"], "nl": nl, "path": [L(x) for x in z["path"]],
            "rows": [{"pre": r["pre"], "fill": r["fill"], "node": L(r["node"])} for r in z["rows"]],
            "text": [{"pf": t["pf"], "node": L(t["node"]), "j": t["j"]} for t in z["text"]]}


def content(lbl, j):
    return "" if j == 0 else "%s~%d" % (lbl, j)


def childiters(N, ci):
    lab = N.label
    kind = ci["kind"]
    if kind == "list":
        return {"list": list, "generator": lambda c: (x for x in c), "tuple": tuple}
    if kind == "reversed":
        return {"reversed": reversed, "reversed-list": lambda c: list(reversed(c))}
    if kind == "sorted":
        key = ci["key"]
        return {"sorted": lambda c: sorted(c, key=lambda n: key[lab(n)])}
    hide = set(ci["hide"])
    return {"filter": lambda c: [x for x in c if lab(x) not in hide], "filter-lazy": lambda c: filter(lambda x: lab(x) not in hide, c)}


def perform(q, par, ch, idx=0, family=None):
    """Returns (mismatches, observation in token space of the first mismatch or of the plain run, count of comparisons)."""
    from . import nodes as N
    from anytree import RenderTree

    N.new_universe()
    N.Ctx.log = None
    cls = N.HLines if family is None else N.FAMILIES[family]["cls"]
    for lbl in par:
        o = N.register(cls(), lbl)
        lines = [content(lbl, j) for j in range(1, q["nl"][lbl] + 1)]
        o.lines = lines
        if family is None:
            o.num = FALSY[len(N.Ctx.objs) % len(FALSY)]      # falsy but printable attribute values
            o.val = "\n".join(lines)
            o.vlist = list(lines)
            o.vtuple = tuple(lines)
    for pp, kids in ch.items():
        for c in kids:
            N.Ctx.objs[c].parent = N.Ctx.objs[pp]
    built = N.snapshot()
    if built[0] != par or built[1] != ch:
        return {"build_failed": True}
    lab = N.label
    start = N.Ctx.objs[q["s"]]
    ml = None if q["ml"] == NOMAX else q["ml"]
    sts = styles()
    obs = {"n": 0, "bad": []}
    snames = STYLE_NAMES if idx % 4 == 0 else (STYLE_NAMES[idx % len(STYLE_NAMES)], "cont")
    for cname, cfn in childiters(N, q["ci"]).items():
        for sname in snames:
            style = sts[sname]
            segs = seg_strings(style)
            exp_rows = [(render(r["pre"], segs), render(r["fill"], segs), r["node"]) for r in q["rows"]]
            exp_text = "\n".join(render(t["pf"], segs) + content(t["node"], t["j"]) for t in q["text"])
            exp_blank = "\n".join(render(r["pre"], segs) for r in q["rows"])
            try:
                rt = RenderTree(start, style=style, childiter=cfn, maxlevel=ml)
                got_rows = [(r.pre, r.fill, lab(r.node)) for r in rt]
                again = [(r.pre, r.fill, lab(r.node)) for r in rt] if cname not in ("generator", "filter-lazy") or True else None
                texts = {"by_attr(lines)": RenderTree(start, style=style, childiter=cfn, maxlevel=ml).by_attr("lines")} if family is not None else {
                         "str": str(RenderTree(start, style=style, childiter=cfn, maxlevel=ml)),
                         "by_attr(val)": RenderTree(start, style=style, childiter=cfn, maxlevel=ml).by_attr("val"),
                         "by_attr(vlist)": RenderTree(start, style=style, childiter=cfn, maxlevel=ml).by_attr("vlist"),
                         "by_attr(vtuple)": RenderTree(start, style=style, childiter=cfn, maxlevel=ml).by_attr("vtuple"),
                         "by_attr(callable)": RenderTree(start, style=style, childiter=cfn, maxlevel=ml).by_attr(lambda n: n.val)}
                blank = RenderTree(start, style=style, childiter=cfn, maxlevel=ml).by_attr("no_such_attribute")
                nums = RenderTree(start, style=style, childiter=cfn, maxlevel=ml).by_attr("num") if family is None else None
            except Exception as e:  # noqa
                obs["bad"].append({"childiter": cname, "style": sname, "raised": "%s: %s" % (type(e).__name__, str(e)[:200])})
                continue
            obs["n"] += 8
            why = None
            if got_rows != exp_rows:
                why = "rows"
            elif again != exp_rows:
                why = "rows on second iteration"
            elif blank != exp_blank:
                why = "by_attr(missing attribute)"
            elif nums is not None and nums != "\n".join(render(r["pre"], segs) + str(getattr(N.Ctx.objs[r["node"]], "num")) for r in q["rows"]):
                why = "by_attr(missing attribute)"      # (same handling: a direct text mismatch)
                obs.setdefault("notes", []).append("by_attr on falsy values (0, 0.0, False, None) must print str(value)")
            else:
                for tn, tv in texts.items():
                    if tv != exp_text:
                        why = tn
                        break
            if why:
                # de-render for the judge
                rows_tok = [{"pre": derender(p_, segs), "fill": derender(f_, segs), "node": n_} for p_, f_, n_ in got_rows]
                txt = texts.get(why) or next(iter(texts.values()))
                text_tok = []
                for line in txt.split("\n"):
                    # the content is "<label>~<j>" or empty; the prefix is everything before it
                    pos = line.rfind("n")
                    if pos >= 0 and "~" in line[pos:]:
                        pf, cont = line[:pos], line[pos:]
                        nlab, _, j = cont.partition("~")
                        try:
                            j = int(j)
                        except ValueError:
                            nlab, j = "?", -1
                    else:
                        pf, nlab, j = line, "", 0
                    text_tok.append({"pf": derender(pf, segs), "node": nlab, "j": j})
                # empty-value lines carry no label: attribute them by position from the expected text
                for i, t in enumerate(text_tok):
                    if t["node"] == "" and i < len(q["text"]):
                        t["node"] = q["text"][i]["node"]
                obs["bad"].append({"childiter": cname, "style": sname, "why": why, "rows": rows_tok, "text": text_tok})
    return obs


def repr_checks(q, par, ch):
    """Node / AnyNode / SymlinkNode reprs: class, separator-joined path of names, public attributes sorted by name."""
    from anytree import AnyNode, Node, SymlinkNode

    bad = []
    n = 0
    names = {l: "N" + l[1:] for l in par}
    attrs = {"zeta": 1, "alpha": "x", "_hidden": 5, "Beta": None, "a": 2, "nam": [3], "me": "m", "names": ()}
    # numbered attributes reaching two digits, a name next to its own extension by a digit (sorted by *name*: col1 < col10 < col2)
    attrs.update({"col%d" % i: i for i in range(1, 13)})
    attrs.update({"x": 0, "x1": 1, "x-": 2})
    shown = ", ".join("%s=%r" % (k, v) for k, v in sorted(attrs.items()) if not k.startswith("_"))
    for sep, cls in (("/", Node), (";", type("SemiNode", (Node,), {"separator": ";"}))):
        objs = {l: cls(names[l], **attrs) for l in par}
        for pp, kids in ch.items():
            for c in kids:
                objs[c].parent = objs[pp]
        exp = "%s(%r, %s)" % (cls.__name__, sep.join([""] + [names[x] for x in q["path"]]), shown)
        got = repr(objs[q["s"]])
        n += 1
        if got != exp:
            bad.append({"what": "repr(%s)" % cls.__name__, "expected": exp, "got": got})
        if sep == "/":
            link = SymlinkNode(objs[q["s"]])
            exp = "SymlinkNode(%s)" % exp
            got = repr(link)
            n += 1
            if got != exp:
                bad.append({"what": "repr(SymlinkNode)", "expected": exp, "got": got})
    a = AnyNode(**attrs)
    exp = "AnyNode(%s)" % shown
    n += 1
    if repr(a) != exp:
        bad.append({"what": "repr(AnyNode)", "expected": exp, "got": repr(a)})
    return n, bad


def worker_init(repo, assertions=False):
    import os

    os.environ["ANYTREE_ASSERTIONS"] = "1" if assertions else "0"
    sys.path.insert(0, repo)
    import anytree  # noqa

    assert os.path.abspath(anytree.__file__).startswith(os.path.abspath(repo)), anytree.__file__
    from . import nodes  # noqa

    # the library's recursive properties and iterators use a few frames per tree level: the chains of the large drawn
    # instances (hundreds of levels) must not depend on how deep the harness's own call stack happens to be
    sys.setrecursionlimit(20000)


@core.safe_worker
def replay_chunk(args):
    lines, base = args
    out = {"n": 0, "vectors": 0, "attention": [], "dropped": 0, "reprs": 0}
    for i, line in enumerate(lines):
        vec = json.loads(json.loads(line))
        par, ch = forest_of(vec["k"], vec["p"])
        q = to_labels(vec)
        out["vectors"] += 1
        obs = perform(q, par, ch, idx=base + i)
        if obs.get("build_failed"):
            continue
        out["n"] += obs["n"]
        if (base + i) % 7 == 0:
            n, bad = repr_checks(q, par, ch)
            out["reprs"] += n
            for b in bad:
                b["repr"] = True
                obs["bad"].append(b)
        if obs["bad"]:
            if len(out["attention"]) < 20:
                out["attention"].append({"par": par, "ch": ch, "query": q, "bad": obs["bad"][:4]})
            else:
                out["dropped"] += 1
    return out


@core.safe_worker
def replay_chunk_adv(args):
    """C17: the same vectors on adversarial node classes; a vector counts only if the plain class renders it as specified."""
    lines, base, families = args
    out = {"n": 0, "attention": []}
    for i, line in enumerate(lines):
        vec = json.loads(json.loads(line))
        par, ch = forest_of(vec["k"], vec["p"])
        q = to_labels(vec)
        plain = perform(q, par, ch, idx=base + i)
        if plain.get("build_failed") or plain["bad"]:
            continue
        for fam in families:
            try:
                obs = perform(q, par, ch, idx=base + i, family=fam)
            except Exception as e:  # noqa
                obs = {"n": 0, "bad": [{"raised": "%s: %s" % (type(e).__name__, str(e)[:200])}]}
            if obs.get("build_failed"):
                obs = {"n": 0, "bad": [{"what": "tree could not be built with this class"}]}
            out["n"] += obs["n"]
            if obs["bad"] and len(out["attention"]) < 10:
                out["attention"].append({"family": fam, "par": par, "ch": ch, "query": q, "bad": [{k: v for k, v in b.items() if k not in ("rows", "text")} for b in obs["bad"][:3]]})
    return out

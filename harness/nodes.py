"""Instrumented node class families used to drive the real anytree code.

Imported only inside worker processes, after sys.path / ANYTREE_ASSERTIONS have been set for the repository copy
under test.  The harness never compares nodes with ==, never hashes them and never uses their truth value: nodes
are labelled in an id()-keyed table owned by the harness and compared with `is`.
"""
import sys

from anytree import AnyNode, LightNodeMixin, LoopError, Node, NodeMixin, SymlinkNode, TreeError
from anytree.node.symlinknodemixin import SymlinkNodeMixin

HOOK_KINDS = ("pre_detach", "post_detach", "pre_attach", "post_attach",
              "pre_detach_children", "post_detach_children", "pre_attach_children", "post_attach_children")
PER_NODE = ("pre_detach", "post_detach", "pre_attach", "post_attach")


class HookFault(Exception):
    """Raised by an instrumented hook when the fault plan says so."""

    def __init__(self, src):
        super().__init__("fault injected at hook invocation %d" % src)
        self.src = src


class NonNode:
    """An argument that is not a tree node."""

    def __repr__(self):
        return "NonNode()"


NONNODE = NonNode()


class Ctx:
    """Per-vector harness state (module global, reset per vector)."""

    plan = {"mode": "none", "ks": [], "kinds": [], "nodes": []}
    hc = 0
    log = None          # list of hook events, or None when hooks are not recorded
    labels = {}         # id(obj) -> label
    objs = {}           # label -> obj   (keeps every node alive, so id() cannot be reused)
    snap_hooks = True   # take a snapshot of the whole forest inside every hook
    nest = None         # plans of mode "act": what the call made by the acting hook did


def reset(plan=None):
    Ctx.plan = plan or {"mode": "none", "ks": [], "kinds": [], "nodes": []}
    Ctx.hc = 0
    Ctx.log = []
    Ctx.nest = None


def new_universe():
    Ctx.labels = {}
    Ctx.objs = {}
    reset()


def register(obj, label):
    Ctx.labels[id(obj)] = label
    Ctx.objs[label] = obj
    return obj


def label(obj):
    if obj is None:
        return "Nil"
    if obj is NONNODE:
        return "NonNode"
    return Ctx.labels.get(id(obj), "?unknown")


def snapshot():
    """Both directions of every link of every node of the universe, through the public attributes."""
    par = {}
    ch = {}
    for lbl, obj in Ctx.objs.items():
        par[lbl] = label(obj.parent)
        ch[lbl] = [label(c) for c in obj.children]
    return par, ch


def _raises(kind, lbl, hc):
    p = Ctx.plan
    mode = p["mode"]
    if mode == "none":
        return False
    if mode == "once":
        return hc in p["ks"]
    if mode == "act":
        return bool(p.get("ar")) and hc == p["ak"]
    return kind in p["kinds"] and lbl in p["nodes"]


def _act(hc):
    """A re-entrant hook: the hook body itself uses the library (`am.parent = av`); whatever that call raises propagates."""
    p = Ctx.plan
    nest = Ctx.nest = {"lo": hc + 1, "hi": hc, "exc": "Nil", "par": {}, "ch": {}}
    try:
        if p.get("akind", "sp") == "dc":
            del Ctx.objs[p["am"]].children
        else:
            Ctx.objs[p["am"]].parent = None if p["av"] == "Nil" else Ctx.objs[p["av"]]
    except Exception as e:
        nest["exc"] = exc_token(e)
        raise
    finally:
        nest["hi"] = Ctx.hc
        nest["par"], nest["ch"] = snapshot()


def _make_hook(kind):
    def hook(self, arg):
        if Ctx.log is None:
            return
        Ctx.hc += 1
        hc = Ctx.hc
        lbl = label(self)
        a = [label(arg)] if kind in PER_NODE else [label(x) for x in arg]
        r = _raises(kind, lbl, hc)
        ev = {"h": kind, "n": lbl, "a": a, "r": r}
        if Ctx.snap_hooks:
            ev["par"], ev["ch"] = snapshot()
        Ctx.log.append(ev)
        if Ctx.plan["mode"] == "act" and Ctx.plan["ak"] == hc:
            _act(hc)        # (an exception of the nested call propagates; otherwise the hook raises if the plan says so)
        if r:
            raise HookFault(hc)

    hook.__name__ = "_" + kind
    return hook


class Hooks:
    """Mixin defining the eight notification hooks (logging + fault injection)."""

    __slots__ = ()


for _k in HOOK_KINDS:
    setattr(Hooks, "_" + _k, _make_hook(_k))


# ---- the class families ------------------------------------------------------------------------------------------
class HMixin(Hooks, NodeMixin):
    """User class on NodeMixin, constructor as documented in the NodeMixin docstring."""

    def __init__(self, parent=None, children=None):
        super().__init__()
        self.parent = parent
        if children:
            self.children = children


class HLight(Hooks, LightNodeMixin):
    """User class on LightNodeMixin with __slots__ (no instance __dict__)."""

    __slots__ = ("foo", "name", "lines")

    def __init__(self, parent=None, children=None):
        super().__init__()
        self.parent = parent
        if children:
            self.children = children


class HLightSub(HLight):
    """Subclass of a __slots__ node class that adds a slot of its own."""

    __slots__ = ("weight",)


class HLightT(Hooks, LightNodeMixin):
    """A __slots__ class (no instance __dict__) used as the *target* of link nodes."""

    __slots__ = ("foo", "_bar", "name")

    def __init__(self, name=None):
        super().__init__()
        if name is not None:
            self.name = name


class HNode(Hooks, Node):
    pass


class HAny(Hooks, AnyNode):
    pass


class HLines(Hooks, NodeMixin):
    """User class whose repr is a given (possibly empty or multi-line) text."""

    lines = ()

    def __repr__(self):
        return "\n".join(self.lines)


class UserAttrs(NodeMixin):
    """User class that stores its keyword arguments as instance attributes (DictImporter nodecls)."""

    def __init__(self, parent=None, children=None, **kwargs):
        super().__init__()
        for key, value in kwargs.items():
            setattr(self, key, value)
        self.parent = parent
        if children:
            self.children = children


class HNodeRO(Hooks, Node):
    """Node class with a read-only property: assignments to `_bar` are refused with AttributeError."""

    @property
    def _bar(self):
        return "ro"


class HAnyRO(Hooks, AnyNode):
    @property
    def _bar(self):
        return "ro"


class HNodeSemi(Hooks, Node):
    """Node with another class-level separator."""

    separator = ";"


class HMixinSep(Hooks, NodeMixin):
    """User class with a multi-character separator and its own path attribute (`label`)."""

    separator = "::"


class HSym(Hooks, SymlinkNode):
    pass


class HSymMixin(Hooks, SymlinkNodeMixin):
    """User class on SymlinkNodeMixin."""

    def __init__(self, target, parent=None, children=None):
        self.target = target
        self.parent = parent
        if children:
            self.children = children


class HSymOwn(Hooks, SymlinkNodeMixin):
    """User class on SymlinkNodeMixin that keeps one attribute of its own (`tag`) on the link itself."""

    def __init__(self, target, tag=None, parent=None, children=None):
        self.target = target
        object.__setattr__(self, "tag", tag)
        self.parent = parent
        if children:
            self.children = children


FAMILIES = {
    "mixin": dict(cls=HMixin, strict=True),
    "light": dict(cls=HLight, strict=False),
    "node": dict(cls=HNode, strict=True),
    "anynode": dict(cls=HAny, strict=True),
    "symlink": dict(cls=HSym, strict=True),
    "symlinkmixin": dict(cls=HSymMixin, strict=True),
}


def construct(family, lbl, parent=None, children=None):
    """cls(parent=..., children=...) with the object registered before __init__ runs (hooks fire inside it)."""
    cls = FAMILIES[family]["cls"]
    obj = cls.__new__(cls)
    register(obj, lbl)
    if family == "node":
        cls.__init__(obj, lbl, parent=parent, children=children)
    elif family in ("symlink", "symlinkmixin"):
        target = Node("target-of-" + lbl)
        cls.__init__(obj, target, parent=parent, children=children)
    else:
        cls.__init__(obj, parent=parent, children=children)
    return obj


EXC_TOKENS = ((HookFault, "HookFault"), (LoopError, "LoopError"), (TreeError, "TreeError"), (TypeError, "TypeError"),
              (RecursionError, "RecursionError"), (AssertionError, "AssertionError"))


def exc_token(e):
    for cls, tok in EXC_TOKENS:
        if isinstance(e, cls):
            return tok
    return "Other:" + type(e).__name__


def build_forest(family, par, ch, skip=()):
    """Fresh objects of `family` in the forest (par, ch), built through the public API with hooks silent.

    Returns the list of build steps performed [(child, parent), ...]."""
    new_universe()
    saved, Ctx.log = Ctx.log, None
    steps = []
    try:
        for lbl in par:
            if lbl not in skip:
                construct(family, lbl)
        for p, kids in ch.items():
            for k in kids:
                Ctx.objs[k].parent = Ctx.objs[p]
                steps.append((k, p))
    finally:
        Ctx.log = saved
    return steps


sys.setrecursionlimit(max(sys.getrecursionlimit(), 1000))


# ---- adversarial class families (C17): user classes that define comparison / hashing / truth / container special methods --
class Tripwire(Exception):
    """Raised (and counted) when the library invokes a user-defined special method on a node."""


TRIPS = [0]


def _trip(name):
    def method(self, *args, **kwargs):
        TRIPS[0] += 1
        raise Tripwire("special method %s invoked on a node" % name)

    method.__name__ = name
    return method


def _const(name, value):
    def method(self, *args, **kwargs):
        return value

    method.__name__ = name
    return method


def _weird_iter(self):
    for c in self.children:
        for g in c.children:
            yield g
            yield g


BEHAVIOURS = {
    "alwayseq": {"__eq__": _const("__eq__", True), "__ne__": _const("__ne__", False), "__hash__": _const("__hash__", 1)},
    "nevereq": {"__eq__": _const("__eq__", False), "__ne__": _const("__ne__", True), "__hash__": _const("__hash__", 2)},
    "falsy": {"__bool__": _const("__bool__", False)},
    "zerolen": {"__len__": _const("__len__", 0)},
    "unhashable": {"__eq__": lambda self, other: self is other, "__hash__": None},
    "container": {"__iter__": _weird_iter, "__len__": _const("__len__", 7), "__contains__": _const("__contains__", True),
                  "__getitem__": lambda self, key: self},
    "ordering": {n: _const(n, True) for n in ("__lt__", "__le__", "__gt__", "__ge__")},
    "tripwire": {n: _trip(n) for n in ("__eq__", "__ne__", "__lt__", "__le__", "__gt__", "__ge__", "__bool__", "__len__",
                                        "__iter__", "__contains__", "__getitem__")},
}
BEHAVIOURS["tripwire"]["__hash__"] = _trip("__hash__")


def _init(self, parent=None, children=None, **kwargs):
    for key, value in kwargs.items():
        setattr(self, key, value)
    self.parent = parent
    if children:
        self.children = children


ADV_FAMILIES = []
for _b, _methods in BEHAVIOURS.items():
    for _basename, _base, _strict in (("mixin", NodeMixin, True), ("light", LightNodeMixin, False)):
        _ns = dict(_methods)
        _ns["__init__"] = _init
        if _base is LightNodeMixin:
            _ns["__slots__"] = ("foo", "name", "lines")
        _ns["__qualname__"] = "Adv_%s_%s" % (_b, _basename)
        _cls = type("Adv_%s_%s" % (_b, _basename), (Hooks, _base), _ns)
        globals()[_cls.__name__] = _cls
        FAMILIES["adv:%s:%s" % (_b, _basename)] = dict(cls=_cls, strict=_strict, base=_basename)
        ADV_FAMILIES.append("adv:%s:%s" % (_b, _basename))

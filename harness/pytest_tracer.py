"""pytest plugin (lives in /verif, changes nothing in /repo): records every *outermost* structural mutator call made while the
repository's own test-suite runs, as one JSON event per line in the file named by ANYTREE_VERIF_TRACE.

It wraps the `parent` / `children` property objects of NodeMixin and LightNodeMixin at import time.  Nested calls (the
children setter calling the parent setter, hooks, constructors of the library calling the setters) are attributed to the
outermost call by a depth counter.  Nodes are labelled on first sight and kept alive, so id() reuse cannot alias.  Hook
invocations of the tests' own classes are not logged: TLC infers which hook raised (TraceOps!PlansFor).
"""
import atexit
import json
import os

from anytree.node.exceptions import LoopError, TreeError
from anytree.node.lightnodemixin import LightNodeMixin
from anytree.node.nodemixin import NodeMixin

PATH = os.environ.get("ANYTREE_VERIF_TRACE")
OUT = open(PATH, "w") if PATH else None
REG = {}
KEEP = []
DEPTH = [0]
COUNT = [0]
BASES = (NodeMixin, LightNodeMixin)


def lab(x):
    if x is None:
        return "Nil"
    if not isinstance(x, BASES):
        return "NonNode"
    k = id(x)
    if k not in REG:
        REG[k] = "n%d" % len(REG)
        KEEP.append(x)
    return REG[k]


def _parent(x):
    return type(x).parent.fget(x)


def _children(x):
    return type(x).children.fget(x)


def closure(seeds):
    seen = {}
    todo = [s for s in seeds if isinstance(s, BASES)]
    while todo:
        x = todo.pop()
        if id(x) in seen:
            continue
        seen[id(x)] = x
        p = _parent(x)
        if p is not None:
            todo.append(p)
        todo.extend(_children(x))
    return list(seen.values())


def snap(nodes):
    par, ch = {}, {}
    for x in nodes:
        par[lab(x)] = lab(_parent(x))
        ch[lab(x)] = [lab(c) for c in _children(x)]
    return par, ch


def token(e):
    for cls, tok in ((LoopError, "LoopError"), (TreeError, "TreeError"), (TypeError, "TypeError"), (RecursionError, "RecursionError"),
                     (AssertionError, "AssertionError")):
        if isinstance(e, cls):
            return tok
    return "HookFault"      # any other exception can only come from user code: a hook of the test's own class


def emit(k, self, v, xs, bad, strict, pre, post, exc):
    COUNT[0] += 1
    OUT.write(json.dumps({"k": k, "n": lab(self), "v": v, "xs": xs, "bad": bad, "strict": strict, "prepar": pre[0], "prech": pre[1],
                          "postpar": post[0], "postch": post[1], "exc": exc, "test": os.environ.get("PYTEST_CURRENT_TEST", "")}) + "\n")


def wrap(cls, strict):
    pp = cls.__dict__["parent"]
    cp = cls.__dict__["children"]

    def pset(self, value):
        if DEPTH[0] or OUT is None:
            return pp.fset(self, value)
        DEPTH[0] += 1
        try:
            seeds = [self, value]
            universe = closure(seeds)
            pre = snap(universe)
            exc = "Nil"
            try:
                return pp.fset(self, value)
            except BaseException as e:
                exc = token(e)
                raise
            finally:
                emit("sp", self, lab(value), [], False, strict, pre, snap(closure(seeds + universe)), exc)
        finally:
            DEPTH[0] -= 1

    def cset(self, value):
        if DEPTH[0] or OUT is None:
            return cp.fset(self, value)
        DEPTH[0] += 1
        try:
            bad = False
            try:
                xs = tuple(value)
            except TypeError:
                xs, bad = (), True
            seeds = [self] + list(xs)
            universe = closure(seeds)
            pre = snap(universe)
            exc = "Nil"
            try:
                return cp.fset(self, value if bad else xs)
            except BaseException as e:
                exc = token(e)
                raise
            finally:
                emit("sc", self, "Nil", [lab(x) for x in xs], bad, strict, pre, snap(closure(seeds + universe)), exc)
        finally:
            DEPTH[0] -= 1

    def cdel(self):
        if DEPTH[0] or OUT is None:
            return cp.fdel(self)
        DEPTH[0] += 1
        try:
            seeds = [self]
            universe = closure(seeds)
            pre = snap(universe)
            exc = "Nil"
            try:
                return cp.fdel(self)
            except BaseException as e:
                exc = token(e)
                raise
            finally:
                emit("dc", self, "Nil", [], False, strict, pre, snap(closure(seeds + universe)), exc)
        finally:
            DEPTH[0] -= 1

    cls.parent = property(pp.fget, pset, pp.fdel, pp.__doc__)
    cls.children = property(cp.fget, cset, cdel, cp.__doc__)


if OUT is not None:
    wrap(NodeMixin, True)
    wrap(LightNodeMixin, False)

    @atexit.register
    def _finish():
        OUT.close()

"""The judge: TLC evaluates the property predicates on observations of the real code (TraceOps.tla)."""
import json
import os
import re
import tempfile

from . import tlc as T

def _unquote(line):
    """The verdict tuple is printed through ToString (one line whatever its length; PrintT alone wraps long tuples)."""
    try:
        return json.loads(line)
    except ValueError:
        return line


_RE_J = re.compile(r'^<<"J", (\d+), "([^"]*)", \{([^}]*)\}, (TRUE|FALSE), (TRUE|FALSE), \{([^}]*)\}>>')


def normalise(o, idx, haslog=True, chain=False):
    """Homogeneously typed record for TraceOps (every field always present)."""
    e = {
        "id": str(o.get("id", idx)),
        "k": o["k"], "n": o["n"], "v": o.get("v", "Nil"), "xs": list(o.get("xs", [])), "bad": bool(o.get("bad", False)),
        "plan": {"mode": o["plan"]["mode"], "ks": list(o["plan"]["ks"]), "kinds": list(o["plan"]["kinds"]),
                 "nodes": list(o["plan"]["nodes"])} if o.get("plan") else {"mode": "none", "ks": [], "kinds": [], "nodes": []},
        "strict": bool(o.get("strict", True)), "asrt": bool(o.get("asrt", False)),
        "prepar": o["prepar"], "prech": o["prech"], "postpar": o["postpar"], "postch": o["postch"],
        "exc": o["exc"], "src": int(o.get("src", 0)),
        "log": [{"h": x["h"], "n": x["n"], "a": list(x["a"]), "r": bool(x["r"]), "par": x["par"], "ch": x["ch"]}
                for x in (o.get("log") or [])],
        "haslog": bool(haslog), "chain": bool(chain),
        # the fault plan is known for certain (the harness's own replays and histories; not for calls recorded from the test-suite)
        "sure": bool(o.get("plan")),
    }
    return e


def judge_ops(events, tag="judge", timeout=1800):
    """events: list of normalised records. Returns {id: {"violated": set, "explained": bool, "chained": bool}}."""
    if not events:
        return {}, None
    try:
        return _judge_ops(events, tag, timeout)
    except T.MachineryError:
        return _judge_ops(events, tag + "-retry", timeout)


MAX_TRACE_BYTES = 10 ** 9      # the trace is read into one Java string


def _write_events(fd, path, events):
    size = 0
    with os.fdopen(fd, "w") as f:
        for e in events:
            line = json.dumps(e) + "\n"
            size += len(line)
            if size > MAX_TRACE_BYTES:
                break
            f.write(line)
    if size > MAX_TRACE_BYTES:
        os.remove(path)
        raise T.MachineryError("the observations to be judged do not fit into one trace file (%d events, more than %d bytes)" % (len(events), MAX_TRACE_BYTES))


def _require_ok(stats, path):
    try:
        T.require_ok(stats)
    except T.MachineryError:
        if os.path.exists(path) and os.path.getsize(path) > 2 * 10 ** 8:
            os.remove(path)         # (small traces of failed judge runs are kept for inspection)
        raise


def _judge_ops(events, tag, timeout):
    os.makedirs(os.path.join(T.BUILD, "judge"), exist_ok=True)
    fd, path = tempfile.mkstemp(prefix=tag + "-", suffix=".ndjson", dir=os.path.join(T.BUILD, "judge"))
    _write_events(fd, path, events)
    cfg = T.cfg_text({"Nil": "Nil", "NonNode": "NonNode", "MaxStack": 12}, init="TInit", next_="TNext",
                     postcondition="Accepted", deadlock=False)
    stats = T.run_tlc("TraceOps", cfg, tag=tag, workers=1, env={"TRACE_FILE": path}, use_cache=False,
                      keep_prefixes=('"<<\\"J',), timeout=timeout)
    _require_ok(stats, path)
    verdicts = {}
    for line in T.read_lines(stats["lines_path"]):
        m = _RE_J.match(_unquote(line))
        if not m:
            raise T.MachineryError("unparsable judge line: " + line[:200])
        viol = set(x.strip().strip('"') for x in m.group(3).split(",") if x.strip())
        verdicts[m.group(2)] = {"violated": viol, "explained": m.group(4) == "TRUE", "chained": m.group(5) == "TRUE",
                                "line": int(m.group(1)), "marks": sorted(x.strip().strip('"') for x in m.group(6).split(",") if x.strip())}
    if len(verdicts) != len(events):
        raise T.MachineryError("judge returned %d verdicts for %d events" % (len(verdicts), len(events)))
    os.remove(path)
    return verdicts, stats


_RE_JQ = re.compile(r'^<<"J", (\d+), "([^"]*)", \{([^}]*)\}>>')


def run_judge(module, events, constants, tag, timeout=1800):
    """Generic judge: module reads IOEnv.TRACE_FILE and prints <<"J", l, id, {violated}>> per line."""
    try:
        return _run_judge(module, events, constants, tag, timeout)
    except T.MachineryError:
        return _run_judge(module, events, constants, tag + "-retry", timeout)


def _run_judge(module, events, constants, tag, timeout):
    os.makedirs(os.path.join(T.BUILD, "judge"), exist_ok=True)
    fd, path = tempfile.mkstemp(prefix=tag + "-", suffix=".ndjson", dir=os.path.join(T.BUILD, "judge"))
    _write_events(fd, path, events)
    cfg = T.cfg_text(constants, init="TInit", next_="TNext", postcondition="Accepted", deadlock=False)
    stats = T.run_tlc(module, cfg, tag=tag, workers=1, env={"TRACE_FILE": path}, use_cache=False,
                      keep_prefixes=('"<<\\"J',), timeout=timeout)
    _require_ok(stats, path)
    verdicts = {}
    for line in T.read_lines(stats["lines_path"]):
        m = _RE_JQ.match(_unquote(line))
        if not m:
            raise T.MachineryError("unparsable judge line: " + line[:200])
        verdicts[m.group(2)] = set(x.strip().strip('"') for x in m.group(3).split(",") if x.strip())
    if len(verdicts) != len(events):
        raise T.MachineryError("judge returned %d verdicts for %d events" % (len(verdicts), len(events)))
    os.remove(path)
    return verdicts, stats

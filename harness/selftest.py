"""./check selftest: demonstrates that the specification is bound to the code (not just admired).

 1. a trace recorded from the real code is accepted by TLC; the same trace with ONE recorded field corrupted is rejected at
    exactly that line, and the rest of the trace is still checked and accepted;
 2. replaying TLC's vectors with ONE expected field corrupted reports exactly that vector;
 3. (with VERIF_SELFTEST_MUTANTS=1) every seeded change under /verif/seeded makes the check of the property it breaks exit 1.
"""
import copy
import json
import os
import subprocess

from . import core, judge, m1_ops, ops_replay, traces
from . import tlc as T


def main(tier):
    ok = True
    # ---- 1. trace validation rejects a corrupted field
    out = traces.driver_verdicts("quick")
    ops = out["ops"]
    norm = [judge.normalise(e, e["id"], haslog=True, chain=False) for e in ops]
    base, _ = judge.judge_ops(norm, tag="selftest-a")
    clean = all(v["explained"] and not (v["violated"] - {"C03"}) for v in base.values())
    victim = next(i for i, e in enumerate(norm) if e["exc"] == "Nil" and e["k"] == "sp" and e["postpar"][e["n"]] != "Nil")
    bad = copy.deepcopy(norm)
    bad[victim]["postpar"][bad[victim]["n"]] = "Nil"          # the recorded parent of the moved node is wiped
    res, _ = judge.judge_ops(bad, tag="selftest-b")
    rejected = [i for i, v in res.items() if not v["explained"] or (v["violated"] - {"C03"})]
    print("selftest 1: %d recorded events accepted: %s; after corrupting event %s TLC rejects %s (violated %s), remaining %d events still judged"
          % (len(norm), clean, bad[victim]["id"], rejected, sorted(res[bad[victim]["id"]]["violated"]), len(res) - 1))
    ok &= clean and rejected == [bad[victim]["id"]]
    # ---- 2. replay reports a corrupted expectation
    c = m1_ops.configs("quick")[1]
    stats = m1_ops.run_model(c)
    lines = T.read_lines(stats["lines_path"])[:400]
    vec = json.loads(json.loads(lines[200]))
    vec["o"]["exc"] = "TreeError" if vec["o"]["exc"] != "TreeError" else "Nil"
    lines[200] = json.dumps(json.dumps(vec)) + "\n"
    tot = m1_ops._replay(lines, ["mixin"], False, None, core.repo_path(), procs=4)
    print("selftest 2: %d vectors replayed, %d differ from the (corrupted) expectation" % (tot["n"], len(tot["attention"])))
    ok &= len(tot["attention"]) == 1
    # ---- 2b. vacuity: every program point of the interpreter is exercised by the model (checked on every M1 run, see m1_ops.run)
    print("selftest 2b: program points of NodeOps!Step reached by the %d vectors of %s: %d of %d" % (tot["n"], c["name"], len(tot["pcs"]), len(m1_ops.ALL_PCS)))
    # ---- 2c. re-entrant hooks: a corrupted expectation is reported; the (correct) observation is then explained by TLC and violates
    #          nothing; the same observation with the nested call's effect wiped is judged a violation
    rc_ = m1_ops.RE["quick"][0]
    rstats = m1_ops.run_re_model(rc_, False)
    rlines = [ln for ln in T.read_lines(rstats["lines_path"])[:3000]]
    pick = next(i for i, ln in enumerate(rlines) if (lambda v: not v["cyc"] and v["ni"] and v["o"]["nest"]["exc"] == "Nil" and v["o"]["plan"]["akind"] == "sp"
                                                     and v["o"]["plan"]["av"] != "Nil" and v["o"]["nest"]["hi"] >= v["o"]["nest"]["lo"]
                                                     and v["o"]["exc"] == "Nil")(json.loads(json.loads(ln))))
    vec = json.loads(json.loads(rlines[pick]))
    vec["o"]["nest"]["exc"] = "LoopError"
    rlines[pick] = json.dumps(json.dumps(vec)) + "\n"
    with core.pool(ops_replay.worker_init, (core.repo_path(), False), 1) as pl:
        r = core.pmap(pl, ops_replay.replay_chunk_re, [(rlines, ["mixin"], None)])[0]
    obs = r["attention"][0]["obs"] if r["attention"] else None

    def ev(o, eid):
        return {"id": eid, "k": o["k"], "n": o["n"], "v": o.get("v", "Nil"), "xs": list(o.get("xs", [])), "bad": False, "sure": True,
                "plan": {"ak": o["plan"]["ak"], "am": o["plan"]["am"], "av": o["plan"]["av"], "akind": o["plan"]["akind"], "ar": bool(o["plan"]["ar"])},
                "strict": True, "asrt": False, "prepar": o["prepar"], "prech": o["prech"], "postpar": o["postpar"], "postch": o["postch"],
                "exc": o["exc"], "src": 0, "log": [{"h": x["h"], "n": x["n"], "a": list(x["a"]), "r": bool(x["r"]), "par": x["par"], "ch": x["ch"]} for x in o["log"]],
                "nest": o["nest"]}
    good2c = False
    if obs is not None and len(r["attention"]) == 1:
        wiped = copy.deepcopy(obs)
        wiped["nest"]["par"][wiped["plan"]["am"]] = "Nil"      # the nested `am.parent = av` "left am a root"
        verd, _ = judge.run_judge("TraceOpsRe", [ev(obs, "good"), ev(wiped, "wiped")], {"Nil": "Nil", "NonNode": "NonNode", "MaxStack": 12}, tag="selftest-re")
        print("selftest 2c: %d re-entrant vectors replayed, %d differ from the (corrupted) expectation; TLC on the real observation: %s; "
              "with the nested call's effect wiped: %s" % (r["n"], len(r["attention"]), sorted(verd["good"]), sorted(verd["wiped"])))
        good2c = verd["good"] == {"explained"} and bool(verd["wiped"] - {"explained"})
    else:
        print("selftest 2c: %d vectors differ from the corrupted expectation (expected 1)" % len(r["attention"]))
    ok &= good2c
    # ---- 3. seeded changes
    if os.environ.get("VERIF_SELFTEST_MUTANTS"):
        sd = os.path.join(core.VERIF, "seeded")
        for name in sorted(os.listdir(sd)):
            meta = json.load(open(os.path.join(sd, name, "meta.json")))
            prop = meta.get("property")
            scratch = "/tmp/selftest-%d" % os.getpid()
            subprocess.run("git -C /repo worktree add -q --detach %s HEAD && git -C %s apply %s" % (scratch, scratch, os.path.join(sd, name, "patch.diff")), shell=True)
            try:
                targets = meta.get("expected_detected_by") or [prop]
                rcs = {}
                for t in targets:
                    p = subprocess.run(["./check", t, "--tier", tier], cwd=core.VERIF, env=dict(os.environ, VERIF_REPO=scratch, VERIF_EVIDENCE_DIR=scratch + "-evidence"), capture_output=True, text=True)
                    rcs[t] = p.returncode
                print("selftest 3: %-10s breaks %s -> %s" % (name, prop, rcs))
                ok &= any(rc == 1 for rc in rcs.values())
            finally:
                subprocess.run("git -C /repo worktree remove --force %s; rm -rf %s-evidence" % (scratch, scratch), shell=True)
    print("selftest: %s" % ("OK" if ok else "FAILED"))
    return 0 if ok else 2

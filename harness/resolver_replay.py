"""Spec -> code for Resolver.get / Resolver.glob (M3)."""
import json
import sys

from . import core
from .query_replay import L, forest_of


def to_labels(vec):
    z = vec["z"]
    names = vec["names"]
    if isinstance(names, dict):
        names = [names[str(i + 1)] for i in range(vec["k"])]
    q = {"q": z["q"], "s": L(z["s"]), "cs": z["cs"], "ic": z["ic"],
         "names": {L(i + 1): n for i, n in enumerate(names)}}
    if z["q"] == "get":
        q["relax"] = z["relax"]
        q["res"] = {"err": z["res"]["err"], "val": [L(x) for x in z["res"]["val"]], "at": [L(x) for x in z["res"]["at"]], "comp": z["res"]["comp"]}
    else:
        q["strict"] = {"err": z["strict"]["err"], "val": [L(x) for x in z["strict"]["val"]]}
        q["relaxed"] = {"err": z["relaxed"]["err"], "val": [L(x) for x in z["relaxed"]["val"]]}
        q["unique"] = z["unique"]
    return q


VARIANTS = ("node/", "node;", "anyid", "mixin::")


def build(variant, par, ch, names):
    """A tree of real nodes named as in `names` (dict label -> list of chars). Returns (objs, sep, pathattr)."""
    from . import nodes as N
    import anytree

    N.new_universe()
    N.Ctx.log = None
    strs = {l: "".join(n) for l, n in names.items()}
    numeric = all(s.isdigit() and (s == "0" or not s.startswith("0")) for s in strs.values())

    def value(s):
        return int(s) if numeric else s

    if variant == "node/":
        cls, sep, attr = N.HNode, "/", "name"
        for l in par:
            N.register(cls(value(strs[l])), l)
    elif variant == "node;":
        cls, sep, attr = N.HNodeSemi, ";", "name"
        for l in par:
            N.register(cls(value(strs[l])), l)
    elif variant == "anyid":
        cls, sep, attr = N.HAny, "/", "id"
        for l in par:
            # a missing attribute reads as "None"
            N.register(cls() if strs[l] == "None" else cls(id=value(strs[l])), l)
    elif variant.startswith("adv:"):
        cls, sep, attr = N.FAMILIES[variant + ":mixin"]["cls"], "/", "name"
        for l in par:
            N.register(cls(name=value(strs[l])), l)
    else:
        cls, sep, attr = N.HMixinSep, "::", "label"
        for l in par:
            o = N.register(cls(), l)
            if strs[l] != "None":
                o.label = value(strs[l])
    for pp, kids in ch.items():
        for c in kids:
            N.Ctx.objs[c].parent = N.Ctx.objs[pp]
    return N.Ctx.objs, sep, attr


def usable(variant, names, cs):
    sep = {"node/": "/", "node;": ";", "anyid": "/", "mixin::": ":"}.get(variant, "/")
    return not any(sep in n for n in names.values()) and not any(sep in c for c in cs)


def outcome(fn, lab, payload=False):
    from anytree.resolver import ChildResolverError, ResolverError, RootResolverError

    try:
        r = fn()
    except ResolverError as e:
        out = {"err": type(e).__name__ if type(e) in (ResolverError, ChildResolverError, RootResolverError) else "Other:" + type(e).__name__, "val": []}
        if payload:
            out["at"] = [lab(getattr(e, "node", None))]
            child = getattr(e, "child", None)
            out["comp"] = list(child) if isinstance(child, str) else []
        return out
    except Exception as e:  # noqa
        return {"err": "Other:" + type(e).__name__, "val": []}
    extra = {"at": [], "comp": []} if payload else {}
    if r is None:
        return dict({"err": "none", "val": []}, **extra)
    if isinstance(r, list):
        return dict({"err": "none", "val": [lab(x) for x in r]}, **extra)
    return dict({"err": "none", "val": [lab(r)]}, **extra)


_dummy = None


def dummy_tree():
    global _dummy
    if _dummy is None:
        from anytree import Node

        _dummy = Node("dummyroot")
        Node("dummychild", parent=_dummy)
    return _dummy


_shared = {}


def shared(attr, ic, relax):
    from anytree import Resolver

    key = (attr, ic, relax)
    if key not in _shared:
        _shared[key] = Resolver(attr, ignorecase=ic, relax=relax)
    return _shared[key]


def perform(q, variant, par, ch):
    from . import nodes as N
    from anytree import Resolver
    import anytree.resolver as R

    objs, sep, attr = build(variant, par, ch, q["names"])
    built = N.snapshot()
    if built[0] != par or built[1] != ch:
        return {"build_failed": True}
    lab = N.label
    path = sep.join("".join(c) for c in q["cs"])
    start = objs[q["s"]]
    obs = {"q": q["q"], "path": path, "variant": variant}
    if q["q"] == "get":
        obs["res"] = outcome(lambda: Resolver(attr, ignorecase=q["ic"], relax=q["relax"]).get(start, path), lab, payload=True)
        # the same question through a resolver object that has answered every earlier vector of this worker
        again = outcome(lambda: shared(attr, q["ic"], q["relax"]).get(start, path), lab, payload=True)
        if again != obs["res"]:
            obs["fresh_resolver"] = obs["res"]
            obs["res"] = again
            obs["long_lived_resolver_differs"] = True
        return obs
    runs = []
    cache = getattr(Resolver, "_match_cache", None)
    for state in ("empty", "full", "polluted"):
        if state == "empty":
            if cache is not None:
                cache.clear()
        elif state == "full":
            # one short of eviction: the shipped limit minus one distinct patterns, through the public API
            if cache is not None:
                cache.clear()
            limit = getattr(R, "_MAXCACHE", 20)
            for i in range(limit - 1):
                Resolver().glob(dummy_tree(), "fill%d*" % i)
        else:
            # the same pattern under the other ignorecase flag first
            for relax in (False, True):
                try:
                    Resolver(attr, ignorecase=not q["ic"], relax=relax).glob(start, path)
                except Exception:  # noqa
                    pass
        runs.append({
            "strict": outcome(lambda: Resolver(attr, ignorecase=q["ic"], relax=False).glob(start, path), lab),
            "relaxed": outcome(lambda: Resolver(attr, ignorecase=q["ic"], relax=True).glob(start, path), lab)})
    # ... and through resolver objects that have answered every earlier vector of this worker (nothing is cleared)
    runs.append({"strict": outcome(lambda: shared(attr, q["ic"], False).glob(start, path), lab),
                 "relaxed": outcome(lambda: shared(attr, q["ic"], True).glob(start, path), lab)})
    obs["runs"] = runs
    return obs


def same(q, obs):
    if obs.get("build_failed"):
        return False
    if q["q"] == "get":
        return obs["res"] == q["res"]
    return all(r["strict"] == q["strict"] and r["relaxed"] == q["relaxed"] for r in obs["runs"])


def worker_init(repo, assertions=False):
    import os

    os.environ["ANYTREE_ASSERTIONS"] = "1" if assertions else "0"
    sys.path.insert(0, repo)
    import anytree  # noqa

    assert os.path.abspath(anytree.__file__).startswith(os.path.abspath(repo)), anytree.__file__
    from . import nodes  # noqa

    # the library's recursive properties and iterators use a few frames per tree level: the chains of the large drawn
    # instances (hundreds of levels) must not depend on how deep the harness's own call stack happens to be
    sys.setrecursionlimit(20000)


@core.safe_worker
def replay_chunk(args):
    lines, variants = args
    out = {"n": 0, "same": 0, "attention": [], "per_kind": {}, "dropped": 0, "skipped": 0, "lockstep_diff": []}
    strata = {}
    for idx, line in enumerate(lines):
        vec = json.loads(json.loads(line))
        par, ch = forest_of(vec["k"], vec["p"])
        q = to_labels(vec)
        strs = {l: "".join(n) for l, n in q["names"].items()}
        comps = ["".join(c) for c in q["cs"]]
        for variant in variants:
            if not usable(variant, strs, comps):
                out["skipped"] += 1
                continue
            out["n"] += 1
            key = "%s:%s" % (q["q"], variant)
            out["per_kind"][key] = out["per_kind"].get(key, 0) + 1
            try:
                obs = core.call_with_deadline(lambda: perform(q, variant, par, ch))
            except core.Hang as e:
                hung = {"err": "Other:Hang", "val": []}
                obs = {"q": q["q"], "path": "?", "variant": variant, "res": hung, "runs": [{"strict": hung, "relaxed": hung}]}
            if variant == variants[0]:
                first = obs
            elif variant.startswith("adv:"):
                a = {k: v for k, v in first.items() if k != "variant"}
                b = {k: v for k, v in obs.items() if k != "variant"}
                if a != b and len(out["lockstep_diff"]) < 6:
                    out["lockstep_diff"].append({"par": par, "ch": ch, "query": q, "plain": first, "adversarial": obs, "family": variant})
            if same(q, obs):
                out["same"] += 1
            else:
                sk = (variant, q["q"], json.dumps(obs.get("res", obs.get("runs", [{}])[0] if obs.get("runs") else None))[:60])
                strata[sk] = strata.get(sk, 0) + 1
                if strata[sk] <= 3:
                    out["attention"].append({"variant": variant, "par": par, "ch": ch, "query": q, "obs": obs})
                else:
                    out["dropped"] += 1
    return out

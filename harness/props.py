"""One function per listed property: which model runs, replays and traces decide it."""
from . import core, m1_ops, ops_replay

CHECKS = {}


def check(pid):
    def deco(f):
        CHECKS[pid] = f
        return f
    return deco


def setup():
    """MANIFEST.setup_cmd: parse every specification module and pre-compute the quick-tier vector caches."""
    from . import tlc as T
    import subprocess
    import os

    rc = 0
    import shutil

    scratch = os.path.join(T.BUILD, "sany-tmp")      # (the parser unpacks the standard modules into java.io.tmpdir on every start)
    os.makedirs(scratch, exist_ok=True)
    for name in sorted(os.listdir(T.SPEC)):
        if name.endswith(".tla"):
            p = subprocess.run(["java", "-Djava.io.tmpdir=" + scratch, "-cp", T.JAR + ":/opt/veriftools/tla/CommunityModules-deps.jar", "tla2sany.SANY",
                                os.path.join(T.SPEC, name)], capture_output=True, text=True, cwd=T.SPEC)
            ok = p.returncode == 0 and "rror" not in p.stdout.split("Semantic processing")[-1]
            print("sany %-22s %s" % (name, "ok" if ok else "FAILED"))
            if not ok:
                print(p.stdout[-2000:])
                rc = 2
    shutil.rmtree(scratch, ignore_errors=True)
    for c in m1_ops.configs("quick"):
        s = m1_ops.run_model(c)
        print("tlc  %-22s generated=%d distinct=%d cached=%s %.1fs" % (c["name"], s["generated"], s["distinct"], s["cached"], s["wall_s"]))
    for c in m1_ops.RE["quick"]:
        for asrt in (False, True):
            s = m1_ops.run_re_model(c, asrt)
            print("tlc  %-22s generated=%d distinct=%d cached=%s %.1fs" % (s["tag"], s["generated"], s["distinct"], s["cached"], s["wall_s"]))
    for s in m1_ops.run_small("quick"):
        print("tlc  %-22s generated=%d distinct=%d cached=%s %.1fs" % (s["tag"], s["generated"], s["distinct"], s["cached"], s["wall_s"]))
    from . import m2_query

    for (prop, tier), cs in sorted(m2_query.CONFIGS.items()):
        if tier == "quick":
            for c in cs:
                s = m2_query.run_model(c)
                print("tlc  %-22s generated=%d distinct=%d cached=%s %.1fs" % (c["name"], s["generated"], s["distinct"], s["cached"], s["wall_s"]))
    from . import m4_render, m5_export, m6_attrs, m6_clone

    for mod in (m6_attrs, m6_clone):
        for c in mod.CONFIGS["quick"]:
            s = mod.run_model(c)
            print("tlc  %-22s generated=%d distinct=%d cached=%s %.1fs" % (c["name"], s["generated"], s["distinct"], s["cached"], s["wall_s"]))

    for c in m4_render.CONFIGS["quick"]:
        s = m4_render.run_model(c)
        print("tlc  %-22s generated=%d distinct=%d cached=%s %.1fs" % (c["name"], s["generated"], s["distinct"], s["cached"], s["wall_s"]))
    for (which, tier), cs in sorted(m5_export.CONFIGS.items()):
        if tier == "quick":
            for c in cs:
                s = m5_export.run_model(c)
                print("tlc  %-22s generated=%d distinct=%d cached=%s %.1fs" % (c["name"], s["generated"], s["distinct"], s["cached"], s["wall_s"]))
    from . import m3_resolver

    for (prop, tier), cs in sorted(m3_resolver.CONFIGS.items()):
        if tier == "quick":
            for c in cs:
                s = m3_resolver.run_model(c)
                print("tlc  %-22s generated=%d distinct=%d cached=%s %.1fs" % (c["name"], s["generated"], s["distinct"], s["cached"], s["wall_s"]))
    return rc


# ---------------------------------------------------------------------------------------------------------------- M1
def _m1_common(res, prop):
    outs = m1_ops.run(res.tier)
    seen_tlc = set()
    openf = core.open_findings(prop)
    for out in outs:
        if out["tlc"]["key"] not in seen_tlc:
            seen_tlc.add(out["tlc"]["key"])
            res.add_tlc(out["tlc"])
        res.replayed += out["n"]
        viols, known, drift = m1_ops.classify(out, prop)
        for v in viols:
            res.violation(v)
        res.drift += drift
        for key, k in known.items():
            marks = key.split("+")
            ids = ["%s-%s" % (prop, m) for m in marks]
            if all(i in openf for i in ids):
                for i in ids:
                    res.add_known(i, k["count"], k["witness"])
            else:
                res.add_known("%s-%s" % (prop, key), k["count"], k["witness"])
        fam = res.extra.setdefault("replays_per_family", {})
        for f, n in out["per_family"].items():
            fkey = "%s%s" % (f, "+assertions" if out["asrt"] else "")
            fam[fkey] = fam.get(fkey, 0) + n
        res.extra["recursion_error_runs"] = res.extra.get("recursion_error_runs", 0) + out["recursion"]
        if "continued" in out:
            res.extra["simulated_histories"] = {"behaviours": out["tlc"].get("simulated_behaviours"), "calls_replayed": out["n"],
                                                "calls_continuing_on_live_objects": out["continued"], "longest_chain": out["longest_chain"]}
    res.extra["configs"] = [dict(o["config"]) for o in outs if o["families"][0] == "mixin" and not o["asrt"]]
    # hooks that themselves use the library (MC_OpsRe)
    seen_re = set()
    rex = res.extra.setdefault("reentrant_hooks", {"replays": 0, "identical_to_the_as_built_model": 0, "non_interfering": 0,
                                                   "corrupting_as_the_model_predicts": 0, "nested_call_refused": 0, "cyclic_not_replayed": 0})
    for out in m1_ops.run_re(res.tier):
        if out["tlc"]["key"] not in seen_re:
            seen_re.add(out["tlc"]["key"])
            res.add_tlc(out["tlc"])
        res.replayed += out["n"]
        rex["replays"] += out["n"]
        rex["identical_to_the_as_built_model"] += out["same"]
        rex["non_interfering"] += out["noninterfering"]
        rex["corrupting_as_the_model_predicts"] += out["corrupting"]
        rex["nested_call_refused"] += out["nested_raises"]
        rex["cyclic_not_replayed"] += out["cyclic_skipped"]
        for att in out["attention"]:
            v = att.get("verdict")
            if v is None:
                continue
            if prop in v["violated"]:
                res.violation(m1_ops.record(prop, out, att, "call with a re-entrant hook (the hook invocation plan.ak calls am.parent = av): "
                                            "TLC judged the observation: violated %s; explained by the as-built model: %s" % (v["violated"], v["explained"])))
            elif not v["violated"]:
                res.drift += 1
        if prop == "C18":
            for d in out["lockstep_diff"]:
                res.violation({"property": "C18", "module": "ops", "config": out["config"]["name"], "asrt": out["asrt"],
                               "why": "NodeMixin and LightNodeMixin classes observed differently on the same call with a re-entrant hook",
                               "pred": d["pred"], "mixin": d["mixin"], "light": d["light"]})
    if prop in ("C01", "C02", "C03"):
        q = m1_ops.run_quiet(res.tier)
        w = m1_ops.run_wide_quiet(res.tier)
        res.add_tlc(w["tlc"])
        res.replayed += q["n"] + w["n"]
        res.extra["quiet_replays"] = q["n"]
        res.extra["wide_node_replays"] = {"children_of_the_hub": w["config"]["Wide"], "replays": w["n"], "identical_to_the_ideal_effect": w["same"]}
        for att in q["attention"] + w["attention"]:
            v = att.get("verdict")
            if v and prop in v["violated"]:
                pred, obs = att["pred"], att["obs"]
                same3 = pred["exc"] == obs["exc"] and pred["postpar"] == obs["postpar"] and pred["postch"] == obs["postch"]
                if not (prop == "C03" and not att["flags"]["c03"] and same3):
                    res.violation(m1_ops.record(prop, w if att in w["attention"] else q, att,
                                                "replay without harness reads during the call: violates %s (judged by TLC)" % v["violated"]))
    return outs


M1_RULE = ("TLC explores every forest over N symmetric nodes reachable through the mutators and, from each, every call "
           "(n.parent = v for every v incl. self/None, del n.children, n.children = xs for every sequence up to MaxLen incl. "
           "repeats/self/ancestors/descendants, [constructors, non-node and non-iterable arguments in the n3x configuration]) "
           "under every fault plan (none, one raising hook invocation at each position, persistent veto per hook kind); each "
           "transition is one vector, replayed on fresh real objects per class family and assertion setting. ")


def _sample_vector(outs):
    for out in outs:
        if out["known"]:
            for k in out["known"].values():
                return k["witness"]
    return None


@check("C01")
def c01(res):
    outs = _m1_common(res, "C01")
    from . import traces

    for st in m1_ops.run_small(res.tier):
        res.add_tlc(st)
    traces.classify_suite(res, "C01")
    traces.classify_driver(res, "C01")
    res.rule = M1_RULE + "Distinct = vectors x class families x assertion settings; non-trivial = the call changes a link or a hook raises."
    res.distinct = res.replayed
    res.exhaustive = True
    res.sample(_sample_vector(outs) or "see replays_per_family")
    res.assumptions += [
        "forests over at most %d nodes; children sequences up to length %d" % (max(o["config"]["N"] for o in outs), max(o["config"]["MaxLen"] for o in outs)),
        "hooks observe and raise; hooks that themselves use the library make one call `m.parent = w` (MC_OpsRe, 3-4 nodes)",
        "the harness's projection through the public parent/children attributes is trusted",
    ]


@check("C02")
def c02(res):
    outs = _m1_common(res, "C02")
    from . import traces

    traces.classify_suite(res, "C02")
    traces.classify_driver(res, "C02")
    res.rule = M1_RULE + "C02 is decided on the fault-free vectors (plan none): outcome = MustRefuse and post = IdealEffect, both defined independently of the interpreter and checked against it by TLC (Thm_C02)."
    res.distinct = res.replayed
    res.exhaustive = True
    res.sample(_sample_vector(outs) or "see replays_per_family")
    res.assumptions += ["non-node arguments are enumerated for NodeMixin-based families only (outside the property for LightNodeMixin)"]


@check("C03")
def c03(res):
    outs = _m1_common(res, "C03")
    from . import traces

    traces.classify_suite(res, "C03")
    traces.classify_driver(res, "C03")
    res.rule = M1_RULE + "C03 is decided on every vector whose outcome is TreeError/LoopError/TypeError or whose raised exceptions all come from pre-hooks."
    res.distinct = res.replayed
    res.exhaustive = True
    res.sample(_sample_vector(outs) or "see replays_per_family")


@check("C16")
def c16(res):
    outs = _m1_common(res, "C16")
    from . import traces

    traces.classify_driver(res, "C16")
    res.rule = M1_RULE + "C16 compares the complete hook log (kind, node, argument, snapshot of the whole forest inside the hook, raised?) of every vector."
    res.distinct = res.replayed
    res.exhaustive = True
    res.sample(_sample_vector(outs) or "see replays_per_family")


@check("C18")
def c18(res):
    from . import m2_query

    outs = _m1_common(res, "C18")
    for out in m1_ops.run_adversarial(res.tier):
        res.replayed += out["per_family"].get("adv:alwayseq:mixin", 0) + out["per_family"].get("adv:alwayseq:light", 0)
        for d in out.get("cross_diff", []):
            res.violation({"property": "C18", "module": "ops", "config": out["config"]["name"], "asrt": False,
                           "why": "NodeMixin and LightNodeMixin classes with the same user-defined special methods (%s) observed differently" % d["pair"],
                           "pred": d["pred"], d["pair"][0]: d[d["pair"][0]], d["pair"][1]: d[d["pair"][1]]})
    qouts = m2_query.run("C18", res.tier)
    m2_query.classify(qouts, res, "C18")
    for out in qouts:
        for d in out["lockstep_diff"]:
            res.violation({"property": "C18", "module": "query", "config": out["config"]["name"],
                           "why": "NodeMixin and LightNodeMixin classes answered a query differently", **d})
    n = 0
    for out in outs:
        for d in out["lockstep_diff"]:
            n += 1
            res.violation({"property": "C18", "module": "ops", "config": out["config"]["name"], "asrt": out["asrt"],
                           "why": "NodeMixin and LightNodeMixin classes observed differently on the same vector",
                           "pred": d["pred"], "mixin": d["mixin"], "light": d["light"]})
    res.rule = M1_RULE + "C18: both mixins are replayed on the same vectors and their observations (forest, exception class, hook log with snapshots) are compared with each other in lock-step."
    res.distinct = res.replayed
    res.exhaustive = True
    res.sample(_sample_vector(outs) or "see replays_per_family")


# ---------------------------------------------------------------------------------------------------------------- M2
def _m2(res, prop, rule):
    from . import m2_query

    outs = m2_query.run(prop, res.tier)
    m2_query.classify(outs, res, prop)
    if prop in ("C04", "C05", "C06", "C14", "C15"):
        from . import traces

        traces.classify_driver(res, prop)
    res.rule = rule
    res.distinct = sum(o["vectors"] for o in outs)
    res.exhaustive = True
    for o in outs[:1]:
        from . import tlc as T
        import itertools, json as _json

        ls = T.read_lines(o["tlc"]["lines_path"])
        for pos in (len(ls) * 2 // 5, len(ls) * 7 // 10):
            res.sample(_json.loads(_json.loads(ls[pos])))
    res.assumptions += ["bounded tree size (see configs); node identity only (no user special methods, see C17)",
                        "nodes are built through the public API on fresh objects per vector; live-object histories are covered by the trace checks"]
    return outs


SHAPES_RULE = ("TLC enumerates every ordered forest/tree shape with up to MaxN nodes (canonical pre-order labelling) as initial states "
               "and every query with every argument combination as a transition whose result is the definition in module Tree; "
               "each transition is one vector replayed on fresh real objects (NodeMixin and LightNodeMixin classes in full, Node/AnyNode/SymlinkNode on a seeded sample). ")


@check("C04")
def c04(res):
    _m2(res, "C04", SHAPES_RULE + "Queries: all navigation attributes of every node (one vector per node), util.commonancestors for every node tuple up to length 3, leftsibling/rightsibling. Cross-lemmas Lem_Nav checked by TLC on every shape.")


@check("C05")
def c05(res):
    _m2(res, "C05", SHAPES_RULE + "Queries: the five iterators from every start node, unrestricted. TLC checks the transcribed algorithms against the definitional orders (Thm_Iters) and the lemmas Lem_Orders (permutation of the subtree, groups concatenate to level order, post-order = mirror of pre-order of the mirrored tree ...).")


@check("C06")
def c06(res):
    _m2(res, "C06", SHAPES_RULE + "Queries: the five iterators for every start node x every stop set x every filtered-out set x every maxlevel in {-1, 0 .. height+2, None}; the as-built algorithms are proved equal to the definition `admitted and filtered` by TLC on every combination (Thm_Iters). A differing observation is judged relative to the iterator's own observed unrestricted traversal.")


@check("C14")
def c14(res):
    _m2(res, "C14", SHAPES_RULE + "Queries: findall/find with stop, filter, maxlevel and every mincount/maxcount in {None, 0..n+1}; findall_by_attr/find_by_attr for every assignment of {absent, v1, v2} to the nodes; each executed through anytree.search and anytree.cachedsearch. Judged relative to what PreOrderIter yielded for the same arguments.")


@check("C15")
def c15(res):
    _m2(res, "C15", SHAPES_RULE + "Queries: Walker.walk for every ordered pair of nodes of every forest (same tree and different trees). Lem_Walk (simple path along links, mirror image, relation to commonancestors) checked by TLC on every shape.")


# ---------------------------------------------------------------------------------------------------------------- M3
def _m3(res, prop, rule):
    from . import m3_resolver
    from . import tlc as T
    import itertools, json as _json

    outs = m3_resolver.run(prop, res.tier)
    m3_resolver.classify(outs, res, prop)
    from . import traces

    traces.classify_driver(res, prop)
    res.rule = rule
    res.distinct = sum(o["vectors"] for o in outs)
    res.exhaustive = True
    for line in itertools.islice(T.read_lines(outs[0]["tlc"]["lines_path"]), 1000, 1002):
        res.sample(_json.loads(_json.loads(line)))
    res.assumptions += ["alphabet of names/patterns: a b c d r x z A.. . + [ ] ( ; * ? $ digits; str.upper() is one-to-one on it",
                        "names containing the class separator cannot be spelled and are skipped for that class variant"]
    return outs


RES_RULE = ("TLC enumerates every tree shape up to MaxN nodes x 9 naming schemes (distinct, case variants, duplicate siblings, regex metacharacters, line breaks, "
            "prefix/suffix names, brackets/other separator/star, numeric values, missing attribute) as initial states and, from every start node, every "
            "path of up to MaxComps components over {names, upper-cased names, unknown, '..', '.', '', wildcard patterns, '**'} relative and absolute, "
            "with ignorecase on/off (and relax on/off); each transition is a vector replayed on real trees of four class variants (separators '/', ';', '::'; path attributes name, id, label). ")


@check("C07")
def c07(res):
    _m3(res, "C07", RES_RULE + "Expected = Get of spec Resolver (the statement, literally); TLC checks the round-trip lemmas Lem_Get for all node pairs of every sibling-unique tree.")


@check("C08")
def c08(res):
    _m3(res, "C08", RES_RULE + "Expected = the as-built recursion AGlob, which TLC proves to satisfy RelaxedOK/StrictOK (Thm_Glob) on every transition; every vector is executed in three cache states (empty, one short of eviction, polluted by the same pattern under the other flag); differing observations are judged by TLC with RelaxedOK/StrictOK and must agree across cache states.")


# ---------------------------------------------------------------------------------------------------------------- M4
@check("C09")
def c09(res):
    from . import m4_render
    from . import tlc as T
    import itertools, json as _json

    outs = m4_render.run(res.tier)
    m4_render.classify(outs, res)
    from . import traces

    traces.classify_driver(res, "C09")
    # node classes with their own __eq__ / truth value are trees, too ("for every tree")
    rout = m4_render.run_adversarial(res.tier)
    res.replayed += rout["n"]
    for att in rout["attention"]:
        res.violation({"property": "C09", "module": "render", "config": rout["config"]["name"], "family": att["family"],
                       "why": "RenderTree of a tree of %s nodes differs from the definition: %s" % (att["family"], att["bad"][:1]),
                       "par": att["par"], "ch": att["ch"], "query": att["query"], "observed": att["bad"]})
    res.rule = ("TLC enumerates every tree shape up to MaxN nodes, every start node, childiter in {list, reversed, sorted by key, filter(S) |S|<=2}, every maxlevel in {0..height+2, None} "
                "and four line-count assignments (0-3 lines per node); the rows are the definition RowsDef (segments from 'has a following sibling'), proved equal to the transcribed "
                "recursion by TLC (Thm_Rows) together with the decoding lemma. Each vector is rendered with 7 styles (4 built-in, widths 1 and 3, a style class) and lazy/eager childiter variants and compared with "
                "list(RenderTree), a second iteration, str(), by_attr for str/list/tuple/callable/missing selectors; Node/AnyNode/SymlinkNode reprs on a 1/7 sample.")
    res.distinct = sum(o["vectors"] for o in outs)
    res.exhaustive = True
    for line in itertools.islice(T.read_lines(outs[0]["tlc"]["lines_path"]), 500, 501):
        res.sample(_json.loads(_json.loads(line)))
    res.assumptions += ["segment tokens are rendered to text by the harness with the style's own strings (trusted 10-line renderer)"]


# ---------------------------------------------------------------------------------------------------------------- M5
def _m5(res, which, prop, rule):
    from . import m5_export
    from . import tlc as T
    import itertools, json as _json

    outs = m5_export.run(which, res.tier)
    m5_export.classify(outs, res, prop)
    if prop in ("C10", "C12", "C13"):
        from . import traces

        traces.classify_driver(res, prop)
    res.rule = rule
    res.distinct = sum(o["vectors"] for o in outs)
    res.exhaustive = True
    for line in itertools.islice(T.read_lines(outs[0]["tlc"]["lines_path"]), 300, 301):
        res.sample(_json.loads(_json.loads(line)))
    return outs


DICT_RULE = ("TLC enumerates every tree shape up to MaxN nodes x 3 attribute schemes (unsorted keys with a private key and `name`; empty dictionaries; one shared value object) x start node x "
             "attriter in {None, sorted, filtering} x childiter in {list, reversed, filter(h)} x maxlevel in {None, 0..3} x JSON maxlevel override in {None, 0, 2}; the exported dictionary "
             "(definition ExportDef) and its import (ImportDef) are emitted. TLC checks export(import(d)) = d, import(export(t)) = t, the depth cut and the JSON delegation (Thm_Dict). ")


@check("C10")
def c10(res):
    _m5(res, "dict", "C10", DICT_RULE + "Replay: trees of AnyNode / Node / a user NodeMixin class, dict and OrderedDict, export compared (== and key order under sorted), arguments unchanged, import with nodecls in {AnyNode, Node, user class}, re-export.")
    res.assumptions += ["value tokens are instantiated from a pool of 14 concrete values (nested containers, None, bool, ints, floats incl. -0.0 and 1e308, non-ASCII/control/astral strings, one shared object)"]


@check("C11")
def c11(res):
    _m5(res, "dict", "C11", DICT_RULE + "Replay: JsonExporter.export/write text compared character by character with json.dumps of the emitted dictionary under 7 keyword-option sets (indent, sort_keys, ensure_ascii, separators), with and without a supplied dictexporter; JsonImporter.import_/read with and without a custom dictimporter.")
    res.assumptions += ["json.dumps/json.loads themselves (CPython's codec) are taken as given: their fidelity is sampled by the value pool, not enumerated"]


GRAPH_RULE = ("TLC enumerates every tree shape up to MaxN nodes x start node x every stop set x every filtered-out set x maxlevel in {None, 0..3}; it emits the definition (declared nodes = the filtered pre-order, "
              "edges = parent-child pairs with both ends declared) and the as-built two-pass generation, and proves them equal up to the named deviation stop_edge (Thm_Graph); escaping is proved invertible (Lem_Esc). "
              "Replay: a structural run with unambiguous identifiers (de-rendered and compared token by token; differing observations judged by TLC relative to the observed PreOrderIter) and a text-format run with "
              "names containing quotes, backslashes, spaces, non-ASCII and collisions, custom name/attribute/edge functions, options, indent, graph/name, files and the legacy class. ")


@check("C12")
def c12(res):
    _m5(res, "graph", "C12", GRAPH_RULE)
    res.assumptions += ["the text of UniqueDotExporter's default node attribute (label=...) is not constrained by the property and not compared"]


@check("C13")
def c13(res):
    _m5(res, "graph", "C13", GRAPH_RULE)


# ---------------------------------------------------------------------------------------------------------------- M6
@check("C20")
def c20(res):
    from . import m6_attrs
    from . import tlc as T
    import itertools, json as _json

    outs = m6_attrs.run(res.tier)
    m6_attrs.classify(outs, res)
    from . import traces

    traces.classify_links(res, "C20")
    # structural behaviour of link classes (C01-C03 for SymlinkNode / SymlinkNodeMixin) comes from M1's symlink families
    m1 = m1_ops.run(res.tier, only=("ops-n3x",))
    for out in m1:
        if "symlink" in out["families"]:
            res.replayed += out["per_family"].get("symlink", 0) + out["per_family"].get("symlinkmixin", 0)
            for att in out["attention"]:
                if att["family"] in ("symlink", "symlinkmixin") and att.get("verdict", {}).get("violated"):
                    bad = [p for p in att["verdict"]["violated"] if not (p == "C03" and not att["flags"]["c03"])]
                    if bad:
                        res.violation(m1_ops.record("C20", out, att, "a link node does not take part in trees like any other node: violates %s" % bad))
    res.rule = ("TLC explores every state reachable from one (thorough: two) ordinary node(s) and two link nodes by: creating a link (target = any live node incl. another link, any parent, 3 keyword sets), "
                "writing foo/bar/name on any live node, n.parent = v and n.children = [x] for all live n, v, x; invariants: a link reads what its target reads, links own nothing, the forest is well-formed; "
                "every transition is a vector: the pre-state is rebuilt from real Node/AnyNode + SymlinkNode/SymlinkNodeMixin objects, the action performed, and every key of every node read back. "
                "Plus the M1 mutator vectors (all fault plans) on the SymlinkNode and SymlinkNodeMixin families. Code -> spec: seeded histories on one live universe of 1-3 ordinary nodes (some with a "
                "read-only property) and up to 8 links (links to links included): link constructors with keywords, attribute writes through any node, parent/children assignments; every step is validated by TLC (TraceAttrs).")
    res.distinct = sum(o["vectors"] for o in outs)
    res.exhaustive = True
    for line in itertools.islice(T.read_lines(outs[0]["tlc"]["lines_path"]), 3000, 3001):
        res.sample(_json.loads(_json.loads(line)))
    res.assumptions += ["attribute names other than the node classes' own API (parent, children, target, separator, path, ...) are represented by foo, bar, name",
                        "targets are fixed at construction (re-assigning .target, which could create cyclic links, is not modelled)"]


@check("C19")
def c19(res):
    from . import m6_clone
    from . import tlc as T
    import itertools, json as _json

    outs = m6_clone.run(res.tier)
    m6_clone.classify(outs, res)
    from . import traces

    traces.classify_links(res, "C19")
    res.rule = ("TLC enumerates every ordered forest with up to MaxN nodes x class family (Node, AnyNode, user NodeMixin class, user LightNodeMixin class with __slots__, Node + SymlinkNode with up to 2 links whose "
                "targets are nodes of the same tree, of another tree or other links) x entry node x method (deepcopy, pickle protocols 0-5; 2-5 for __slots__ classes); the expected state is the canonical copy CloneDef, "
                "which TLC proves to satisfy the label-free predicate IsCopy (Thm_Clone). Replay: the copy is made, both structures are walked in lock-step to find the correspondence, every node of the original and the copy "
                "is projected (parent, children, target, class, attribute), then the copy and the original are mutated and projected again. Code -> spec: in seeded histories of link/attribute/structure "
                "calls on one live universe, whatever has been built is copied (deepcopy, pickle 0/2/4/5) from a random node, the copy extended below one of its leaves, and the observation validated by TLC (TraceClone).")
    res.distinct = sum(o["vectors"] for o in outs)
    res.exhaustive = True
    for line in itertools.islice(T.read_lines(outs[0]["tlc"]["lines_path"]), 700, 701):
        res.sample(_json.loads(_json.loads(line)))
    res.assumptions += ["pickle and copy themselves (CPython) are taken as given", "node attributes: one string attribute per ordinary node (links forward it)"]


# ---------------------------------------------------------------------------------------------------------------- C17
ADV = ["adv:%s:%s" % (b, base) for b in ("alwayseq", "nevereq", "falsy", "zerolen", "unhashable", "container", "ordering", "tripwire")
       for base in ("mixin", "light")]


@check("C17")
def c17(res):
    from . import m2_query

    outs = m1_ops.run_adversarial(res.tier)
    seen = set()
    for out in outs:
        if out["tlc"]["key"] not in seen:
            seen.add(out["tlc"]["key"])
            res.add_tlc(out["tlc"])
        res.replayed += out["n"]
        for d in out["lockstep_diff"]:
            base, adv = d["pair"]
            res.violation({"property": "C17", "module": "ops", "config": out["config"]["name"], "family": adv,
                           "why": "a class with user-defined special methods (%s) behaves differently from the plain class on the same call" % adv,
                           "pred": d["pred"], "plain": d[base], "adversarial": d[adv]})
    out = m1_ops.run_re_adversarial(res.tier)
    res.add_tlc(out["tlc"])
    res.replayed += out["n"]
    res.extra["reentrant_hooks"] = {"replays": out["n"], "identical_to_the_as_built_model": out["same"]}
    for d in out["lockstep_diff"]:
        base, adv = d["pair"]
        res.violation({"property": "C17", "module": "ops", "config": out["config"]["name"], "family": adv, "asrt": False,
                       "why": "a class with user-defined special methods (%s) behaves differently from the plain class on the same call with a re-entrant hook" % adv,
                       "pred": d["pred"], "plain": d[base], "adversarial": d[adv]})
    qouts = m2_query.run("C17", res.tier, families=tuple(["mixin", "light"] + ADV), others=())
    for out in qouts:
        if out["tlc"]["key"] not in seen:
            seen.add(out["tlc"]["key"])
            res.add_tlc(out["tlc"])
        res.replayed += out["n"]
        for d in out["lockstep_diff"]:
            base, adv = d["pair"]
            res.violation({"property": "C17", "module": "query", "config": out["config"]["name"], "family": adv,
                           "why": "a class with user-defined special methods (%s) answers a query differently from the plain class" % adv,
                           "par": d["par"], "ch": d["ch"], "query": d["query"], "plain": d[base], "adversarial": d[adv]})
    from . import m3_resolver

    for out in m3_resolver.run("C17", res.tier):
        if out["tlc"]["key"] not in seen:
            seen.add(out["tlc"]["key"])
            res.add_tlc(out["tlc"])
        res.replayed += out["n"]
        for d in out["lockstep_diff"]:
            res.violation({"property": "C17", "module": "resolver", "config": out["config"]["name"], "family": d["family"],
                           "why": "Resolver on a class with user-defined special methods (%s) differs from the plain class: path %r" % (d["family"], d["plain"].get("path")),
                           "par": d["par"], "ch": d["ch"], "query": d["query"], "plain": d["plain"], "adversarial": d["adversarial"]})
    from . import m5_export

    for out in m5_export.run("graph", res.tier):
        if out["tlc"]["key"] not in seen:
            seen.add(out["tlc"]["key"])
            res.add_tlc(out["tlc"])
        res.replayed += out["vectors"]
        for att in out["attention"]:
            for b in att["bad"]:
                if "always-equal" in str(b.get("what", "")):
                    res.violation({"property": "C17", "module": "export", "config": out["config"]["name"], "family": "adv:alwayseq:mixin",
                                   "why": "%s exporter: %s" % (b.get("kind"), b["what"]), "par": att["par"], "ch": att["ch"], "observed": b})
    from . import m4_render

    rout = m4_render.run_adversarial(res.tier)
    res.add_tlc(rout["tlc"])
    res.replayed += rout["n"]
    for att in rout["attention"]:
        res.violation({"property": "C17", "module": "render", "config": rout["config"]["name"], "family": att["family"],
                       "why": "RenderTree on a class with user-defined special methods (%s) differs from the plain class: %s" % (att["family"], att["bad"][:1]),
                       "par": att["par"], "ch": att["ch"], "query": att["query"], "observed": att["bad"]})
    res.rule = ("The specification is the identity-only semantics (no operator compares, hashes, orders, iterates or tests the truth of a node); C17 is decided by conformance: the vectors of M1 (mutators with "
                "all fault plans; quick: the full n3x configuration and a seeded 1/6 of n4) and M2 (navigation, util helpers, iterators with options, Walker, find) are replayed on 16 adversarial class families "
                "(always-equal, never-equal, falsy, zero-length, unhashable, container-like, always-true ordering, and a tripwire whose special methods raise) on both mixins and compared in lock-step with the plain class on the same base.")
    res.distinct = res.replayed
    res.exhaustive = False
    res.sample({"families": ADV})
    res.assumptions += ["'all user classes' is represented by this finite family of overriding patterns"]

"""Shared plumbing of the checks: result aggregation, evidence files, replay records, known findings."""
import json
import multiprocessing as mp
import os
import time

from . import tlc as T

VERIF = T.VERIF
# checks run against a scratch copy (VERIF_REPO=..., seeded changes) must not overwrite the committed evidence
EVIDENCE = os.environ.get("VERIF_EVIDENCE_DIR") or os.path.join(VERIF, "evidence")
REPLAYS = os.path.join(EVIDENCE, "replays")
KNOWN = os.path.join(VERIF, "known_findings.json")
PYTHON = "/venv/bin/python"


def repo_path():
    return os.path.abspath(os.environ.get("VERIF_REPO", "/repo"))


def seed():
    try:
        return int(os.environ.get("VERIF_SEED", "0"))
    except ValueError:
        return 0


def load_known():
    with open(KNOWN) as f:
        return json.load(f)


def open_findings(prop):
    return {e["id"]: e for e in load_known()["findings"] if e["property"] == prop and e["status"] == "open"}


class Result:
    """What one check run covered and found, for one property."""

    def __init__(self, prop, tier):
        self.prop = prop
        self.tier = tier
        self.t0 = time.time()
        self.tlc_runs = []          # statistics of the TLC runs that served this property
        self.states = 0
        self.transitions = 0
        self.replayed = 0           # vectors / behaviours replayed into the real code
        self.trace_events = 0       # events recorded from the real code and validated by TLC
        self.violations = []        # replay records (dicts)
        self.known = {}             # finding id -> {count, witness}
        self.drift = 0              # observations that differ from the as-built model but violate nothing
        self.samples = []
        self.notes = []
        self.extra = {}
        self.assumptions = []
        self.distinct = 0
        self.rule = ""
        self.exhaustive = False

    def add_tlc(self, stats, transitions=True):
        self.tlc_runs.append({k: stats.get(k) for k in ("tag", "module", "generated", "distinct", "depth", "wall_s", "cached", "lines", "cmd")})
        self.states += stats.get("distinct", 0)
        if transitions:
            self.transitions += stats.get("generated", 0)

    def violation(self, record):
        self.violations.append(record)

    def add_known(self, fid, count, witness):
        k = self.known.setdefault(fid, {"count": 0, "witness": None})
        k["count"] += count
        if k["witness"] is None:
            k["witness"] = witness

    def sample(self, s, limit=6):
        if len(self.samples) < limit:
            self.samples.append(s)


def write_replay(prop, idx, record):
    os.makedirs(REPLAYS, exist_ok=True)
    path = os.path.join(REPLAYS, "%s-%d.json" % (prop, idx))
    with open(path, "w") as f:
        json.dump(record, f, indent=1, sort_keys=True, default=str)
    return path


def finish(res, level="model_checking"):
    """Print verdict lines, write the evidence file, return the exit status."""
    os.makedirs(EVIDENCE, exist_ok=True)
    # stale replay files of this property
    if os.path.isdir(REPLAYS):
        for name in os.listdir(REPLAYS):
            if name.startswith(res.prop + "-"):
                os.remove(os.path.join(REPLAYS, name))
    openf = open_findings(res.prop)
    rc = 0
    for fid, k in sorted(res.known.items()):
        if fid in openf:
            print("KNOWN-FINDING: property=%s %s: %s (%d occurrences; witness: %s)" % (
                res.prop, fid, openf[fid]["what"], k["count"], json.dumps(k["witness"], sort_keys=True, default=str)[:600]))
        else:
            # the model says the property fails here, the code agrees, and the finding is not listed: report it
            res.violation({"property": res.prop, "why": "unlisted deviation " + fid, "witness": k["witness"]})
    shown = 0
    for i, rec in enumerate(res.violations):
        rc = 1
        if shown < 25:
            path = write_replay(res.prop, i, rec)
            print("VIOLATION property=%s replay=%s" % (res.prop, path))
            if rec.get("why"):
                print("  why: %s" % str(rec["why"])[:500])
            shown += 1
    if len(res.violations) > shown:
        print("  ... and %d more violations of %s" % (len(res.violations) - shown, res.prop))
    cov = {
        "states": max(res.states, 0),
        "transitions": max(res.transitions, 0),
        "traces_validated_against_impl": res.replayed + res.trace_events,
        "vectors_replayed_into_impl": res.replayed,
        "trace_events_validated_by_tlc": res.trace_events,
        "samples": res.samples or ["(no sample recorded)"],
        "evaluations": res.replayed + res.trace_events,
        "distinct_nontrivial": res.distinct,
        "rule": res.rule,
        "exhaustive": res.exhaustive,
        "tlc_runs": res.tlc_runs,
        "known_finding_hits": {k: v["count"] for k, v in res.known.items()},
        "conformance_drift": res.drift,
        "notes": res.notes,
    }
    cov.update(res.extra)
    drawn = [c["name"] for c in cov.get("configs", []) if isinstance(c, dict) and (c.get("big") or str(c.get("name", "")).startswith(("ops-sim", "ops-wide")))]
    if drawn:
        # part of the coverage is sampled: say so next to the `exhaustive` flag
        cov["exhaustive_scope"] = ("exhaustive within the bounds of the enumerating configurations; the configurations %s are drawn samples beyond those "
                                   "bounds (large random instances / simulated histories, fixed seed) and are not exhaustive" % ", ".join(drawn))
    ev = {
        "property_id": res.prop,
        "tier": res.tier,
        "seed": seed(),
        "level": level,
        "coverage": cov,
        "assumptions": res.assumptions,
        "wall_s": round(time.time() - res.t0, 2),
        "violations": len(res.violations),
    }
    with open(os.path.join(EVIDENCE, res.prop + ".json"), "w") as f:
        json.dump(ev, f, indent=1, sort_keys=True, default=str)
    print("%s %s: states=%d transitions=%d replayed=%d trace_events=%d violations=%d known=%s drift=%d wall=%.1fs" % (
        res.prop, res.tier, res.states, res.transitions, res.replayed, res.trace_events, len(res.violations),
        {k: v["count"] for k, v in res.known.items()}, res.drift, time.time() - res.t0))
    return rc


def chunks(lines, n):
    for i in range(0, len(lines), n):
        yield lines[i:i + n]


def pool(init, initargs, procs=16):
    ctx = mp.get_context("fork")
    return ctx.Pool(procs, initializer=init, initargs=initargs)


# ---- deadlines: a change to the library that makes a call loop forever must not make a check hang ---------------------
import signal


class Hang(BaseException):
    """A call into the library did not return within the time limit.
    (Not an Exception: the library's own `except Exception:` rollback handlers must not swallow it -- a seeded change that
    makes the ancestor walk endless turned the 10 s limit into an endless rollback that way.)"""


def _on_alarm(signum, frame):
    raise Hang("the call did not return within the time limit")


HANGS = [0]     # per worker process: after a few calls that did not return, the rest is not attempted any more


def call_with_deadline(fn, seconds=10):
    if HANGS[0] >= 3:
        raise Hang("not attempted: earlier calls in this worker did not return within the time limit")
    try:
        return _deadline(fn, seconds)
    except Hang:
        HANGS[0] += 1
        raise


def _deadline(fn, seconds):
    import time

    old = signal.signal(signal.SIGALRM, _on_alarm)
    t0 = time.time()
    outer = signal.setitimer(signal.ITIMER_REAL, seconds, 1.0)      # (repeating: raised again should something swallow it)
    try:
        return fn()
    finally:
        signal.setitimer(signal.ITIMER_REAL, 0)
        signal.signal(signal.SIGALRM, old)
        if outer[0] > 0:
            # an enclosing time limit (a whole history) keeps running
            signal.setitimer(signal.ITIMER_REAL, max(0.05, outer[0] - (time.time() - t0)), 1.0)


class WorkerError(Exception):
    """An exception that escaped a worker function, re-raised as a plain string (exception classes defined next to the
    instrumented node classes cannot be unpickled in the parent process, which never imports anytree)."""


def safe_worker(fn):
    import functools
    import traceback

    @functools.wraps(fn)
    def wrapper(*args, **kwargs):
        try:
            return fn(*args, **kwargs)
        except BaseException as e:  # noqa
            if isinstance(e, (KeyboardInterrupt, SystemExit)):
                raise
            raise WorkerError("%s: %s\n%s" % (type(e).__name__, e, traceback.format_exc()[-1500:])) from None

    return wrapper


def pmap(pool_, fn, jobs, timeout=None):
    """pool.map with an upper time limit (a lost worker must not make the check wait forever)."""
    import multiprocessing

    from . import tlc as T

    try:
        return pool_.map_async(fn, jobs).get(timeout or int(os.environ.get("VERIF_POOL_TIMEOUT", "2400")))
    except multiprocessing.TimeoutError:
        raise T.MachineryError("a worker pool did not deliver its results within the time limit")
    except WorkerError as e:
        raise T.MachineryError("a replay worker failed: %s" % str(e)[:1500])


def interpreter_limit(text, par):
    """A RecursionError on a tree more than 100 levels deep: the interpreter's own recursion limits (the C stack counter,
    which sys.setrecursionlimit does not lift, depends on how deep the harness happens to be when a worker is forked) --
    not an observation about the library.  `par`: parent function (dict label -> label / Nil)."""
    if "RecursionError" not in str(text or ""):
        return False
    for n in par:
        k, cur = 0, n
        while par.get(cur) not in (None, "Nil", 0, "0") and par.get(cur) in par:
            cur = par[cur]
            k += 1
            if k > 100:
                return True
    return False

"""Module M5 (exporters / importers): TLC runs, replay, judging.  Serves C10 C11 C12 C13."""
from . import core, export_replay, judge
from . import tlc as T

CONFIGS = {
    ("dict", "quick"): [dict(name="dict-t4", MaxN=4, queries=("dict",), MaxStop=0, MaxHide=0)],
    ("dict", "thorough"): [dict(name="dict-t5", MaxN=5, queries=("dict",), MaxStop=0, MaxHide=0)],
    ("graph", "quick"): [dict(name="graph-t4", MaxN=4, queries=("graph",), MaxStop=4, MaxHide=4)],
    ("graph", "thorough"): [dict(name="graph-t5", MaxN=5, queries=("graph",), MaxStop=5, MaxHide=5),
                            dict(name="graph-t6s", MaxN=6, queries=("graph",), MaxStop=1, MaxHide=1)],
}


def big(name, which, lo, hi, instances, per):
    return dict(name=name, MaxN=3, queries=(which,), MaxStop=1, MaxHide=1, big=dict(BigMin=lo, BigMax=hi, Instances=instances, PerShape=per))


for _w in ("dict", "graph"):
    CONFIGS[(_w, "quick")] += [big("big-%s-60" % _w, _w, 10, 60, 36, 10), big("big-%s-300" % _w, _w, 100, 300, 6, 6)]
    CONFIGS[(_w, "thorough")] += [big("big-%s-80" % _w, _w, 10, 80, 300, 20), big("big-%s-300t" % _w, _w, 100, 300, 24, 8)]


def tlc_cfg(c):
    if c.get("big"):
        consts = {"Nil": 0, "MaxN": c["MaxN"], "Queries": set(c["queries"]), "MaxStop": c["MaxStop"], "MaxHide": c["MaxHide"]}
        consts.update(c["big"])
        return T.cfg_text(consts, init="BigInit", next_="BigNext", view="View", properties=("BigThm_Dict", "BigThm_Graph"),
                          action_constraints=("Emit",), deadlock=False)
    return T.cfg_text({"Nil": 0, "MaxN": c["MaxN"], "Queries": set(c["queries"]), "MaxStop": c["MaxStop"], "MaxHide": c["MaxHide"]},
                      view="View", invariants=("Lem_Esc",), properties=("Thm_Dict", "Thm_Graph"), action_constraints=("Emit",), deadlock=False)


def run_model(c, coverage=False):
    if c.get("big"):
        return T.run_vectors("MC_ExportBig", tlc_cfg(c), c["name"], lambda st: st["distinct"] * c["big"]["PerShape"], workers=1,
                             extra=("-seed", str(19 + core.seed())))
    return T.run_vectors("MC_Export", tlc_cfg(c), c["name"], lambda st: st["generated"] - st["distinct"])


_memo = {}


def run(which, tier, repo=None, procs=16):
    repo = repo or core.repo_path()
    key = (which, tier, repo)
    if key in _memo:
        return _memo[key]
    outcomes = []
    for c in CONFIGS[(which, tier)]:
        stats = run_model(c)
        lines = T.read_lines(stats["lines_path"])
        size = max(20, min(1000, len(lines) // (procs * 4) + 1))
        jobs = [(lines[i:i + size], i) for i in range(0, len(lines), size)]
        with core.pool(export_replay.worker_init, (repo,), procs) as p:
            parts = core.pmap(p, export_replay.replay_chunk, jobs)
        tot = {"n": 0, "vectors": 0, "attention": [], "dropped": 0, "known": {}, "known_witness": {}}
        for r in parts:
            for k in ("n", "vectors", "dropped"):
                tot[k] += r[k]
            tot["attention"] += r["attention"]
            for k, v in r["known"].items():
                tot["known"][k] = tot["known"].get(k, 0) + v
            for k, v in r["known_witness"].items():
                tot["known_witness"].setdefault(k, v)
        tot.update(config=c, tlc=stats)
        outcomes.append(tot)
        with core.pool(export_replay.worker_init, (repo, True), procs) as p:
            parts = core.pmap(p, export_replay.replay_chunk, jobs[core.seed() % 3::3])
        tot2 = {"n": 0, "vectors": 0, "attention": [], "dropped": 0, "known": {}, "known_witness": {}}
        for r in parts:
            for k in ("n", "vectors", "dropped"):
                tot2[k] += r[k]
            tot2["attention"] += r["attention"]
        tot2.update(config=dict(c, assertions=True), tlc=stats)
        outcomes.append(tot2)
    _judge(outcomes)
    _memo[key] = outcomes
    return outcomes


def _judge(outcomes, cap=3000):
    events, index = [], {}
    for oi, out in enumerate(outcomes):
        for ai, att in enumerate(out["attention"]):
            q = att["query"]
            for bi, b in enumerate(att["bad"]):
                ident = "%d.%d.%d" % (oi, ai, bi)
                e = None
                if "obs_d" in b and b["what"].startswith("JsonExporter"):
                    e = {"id": ident, "q": "json_export", "par": att["par"], "ch": att["ch"], "attrs": q["attrs"], "s": q["s"], "o": q["o"],
                         "jml": q["jml"], "obs": export_replay.flatten_d(b["obs_d"])}
                    if b.get("jexp") == q["jd_default"] and q["jd_default"] != q["jd"]:
                        e["o"] = dict(q["o"], attriter="none", ml=export_replay.NOMAX, ci=dict(q["o"]["ci"], kind="list", hide=[]))
                elif "obs_d" in b and b["what"] == "export(import_(d)) != d":
                    b["verdict"] = ["C10"]      # decided by equality with the emitted dictionary (round trip)
                elif "obs_d" in b:
                    e = {"id": ident, "q": "dict_export", "par": att["par"], "ch": att["ch"], "attrs": q["attrs"], "s": q["s"], "o": q["o"], "obs": export_replay.flatten_d(b["obs_d"])}
                elif "obs_imp" in b:
                    e = {"id": ident, "q": "json_import" if b["prop"] == "C11" else "dict_import", "d": export_replay.flatten_d(b["d"]),
                         "obs": {"p": b["obs_imp"]["p"], "attrs": b["obs_imp"]["attrs"]}}
                    b["classes"] = b["obs_imp"]["classes"]
                elif "obs" in b and "iter" in b:
                    e = {"id": ident, "q": "graph", "kind": b["kind"], "par": att["par"], "ch": att["ch"], "s": q["s"], "st": q["st"], "fl": q["fl"],
                         "ml": q["ml"], "iter": b["iter"], "obs": b["obs"]}
                if e is not None and len(events) < cap:
                    events.append(e)
                    index[ident] = b
    if events:
        verdicts, _ = judge.run_judge("TraceExport", events, {"Nil": "Nil"}, tag="judge-export")
        for i, v in verdicts.items():
            index[i]["verdict"] = sorted(v)


def classify(outcomes, res, prop):
    seen = set()
    for out in outcomes:
        if out["tlc"]["key"] not in seen:
            seen.add(out["tlc"]["key"])
            res.add_tlc(out["tlc"])
        res.replayed += out["n"]
        res.extra["vectors"] = res.extra.get("vectors", 0) + out["vectors"]
        for att in out["attention"]:
            for b in att["bad"]:
                if b.get("prop") == "harness":
                    raise T.MachineryError("replayer failed: " + b["raised"])
                if b.get("prop") != prop:
                    continue
                if core.interpreter_limit(b.get("raised"), att["par"]):
                    res.extra["skipped_at_the_interpreters_recursion_limit"] = res.extra.get("skipped_at_the_interpreters_recursion_limit", 0) + 1
                    continue
                v = b.get("verdict")
                structural_ok = v is not None and prop not in v
                if b.get("direct") or "raised" in b or (v is not None and prop in v):
                    why = "%s: %s" % (b.get("what", b.get("kind")), b.get("raised") or ("violates %s (judged by TLC)" % prop if v else "exact comparison failed"))
                elif structural_ok and ("text" in b or b.get("repeat_differs") or b.get("header_ok") is False or b.get("classes")):
                    why = "%s: structure judged fine by TLC, but the exact text / classes / repeated iteration differ" % b.get("what", b.get("kind"))
                    if b.get("classes") and not ("text" in b):
                        # importer built the right tree; node classes are compared by the harness only
                        why = "imported tree has the right shape but nodes are not nodecls instances: %s" % b["classes"]
                else:
                    res.drift += 1
                    continue
                res.violation({"property": prop, "module": "export", "config": out["config"]["name"], "why": why,
                               "par": att["par"], "ch": att["ch"], "query": {k: att["query"][k] for k in att["query"] if k not in ("imp",)}, "observed": b})
        if prop == "C12":
            for kind, cnt in out["known"].items():
                if kind in ("dot", "unique"):
                    res.add_known("C12-stop_edge", cnt, out["known_witness"].get(kind))
        if prop == "C13":
            for kind, cnt in out["known"].items():
                if kind == "mermaid":
                    res.add_known("C13-unlisted", cnt, out["known_witness"].get(kind))
    res.extra["configs"] = [o["config"] for o in outcomes]

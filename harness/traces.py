"""Code -> spec: executions of the real code recorded as traces and validated by TLC."""
import json
import os
import shutil
import subprocess
import tempfile

from . import core, judge
from . import tlc as T


def record_suite(repo):
    """Run the repository's own test-suite under the tracer plugin; returns (events, summary line)."""
    os.makedirs(os.path.join(T.BUILD, "traces"), exist_ok=True)
    fd, path = tempfile.mkstemp(prefix="suite-", suffix=".ndjson", dir=os.path.join(T.BUILD, "traces"))
    os.close(fd)
    env = dict(os.environ)
    # (the suite's picture tests leave a temporary .dot file behind on every run where the `dot` binary is missing)
    scratch = tempfile.mkdtemp(prefix="suite-tmp-", dir=os.path.join(T.BUILD, "traces"))
    env.update(PYTHONPATH=T.VERIF + os.pathsep + repo, ANYTREE_VERIF_TRACE=path, PYTHONDONTWRITEBYTECODE="1", PYTHONHASHSEED="0",
               ANYTREE_ASSERTIONS="0", TMPDIR=scratch)
    p = subprocess.run([core.PYTHON, "-m", "pytest", "-q", "-p", "no:cacheprovider", "-p", "harness.pytest_tracer", "--timeout=900",
                        "tests"], cwd=repo, env=env, capture_output=True, text=True, timeout=1800)
    tail = [l for l in p.stdout.strip().splitlines() if " passed" in l or " failed" in l][-1:] or [""]
    events = []
    with open(path) as f:
        for i, line in enumerate(f):
            e = json.loads(line)
            e["id"] = "s%d" % i
            events.append(e)
    os.remove(path)
    shutil.rmtree(scratch, ignore_errors=True)
    return events, tail[0]


_memo = {}


def suite_verdicts(repo=None):
    repo = repo or core.repo_path()
    if repo in _memo:
        return _memo[repo]
    events, summary = record_suite(repo)
    if not events:
        raise T.MachineryError("the traced test-suite run recorded no event (%s)" % summary)
    norm = []
    for e in events:
        o = dict(e)
        o["plan"] = None
        o["log"] = []
        o["src"] = 0
        norm.append(judge.normalise(o, e["id"], haslog=False, chain=True))
    verdicts, stats = judge.judge_ops(norm, tag="trace-suite")
    out = {"events": events, "verdicts": verdicts, "summary": summary, "tlc": stats}
    _memo[repo] = out
    return out


def classify_suite(res, prop):
    out = suite_verdicts()
    res.trace_events += len(out["events"])
    res.extra["suite_trace"] = {"events": len(out["events"]), "pytest": out["summary"],
                                "explained_by_model": sum(1 for v in out["verdicts"].values() if v["explained"]),
                                "chain_gaps": sum(1 for v in out["verdicts"].values() if not v["chained"])}
    if out["tlc"]:
        res.add_tlc(dict(out["tlc"], tag="trace-suite"), transitions=True)
    byid = {e["id"]: e for e in out["events"]}
    for i, v in out["verdicts"].items():
        if prop in v["violated"]:
            res.violation({"property": prop, "module": "trace-suite", "why": "event %s recorded from the repository's test-suite (%s) violates %s (judged by TLC)" % (
                i, byid[i].get("test"), sorted(v["violated"])), "event": byid[i]})
        elif not v["explained"] and not v["violated"]:
            res.drift += 1


# ------------------------------------------------------------------------------------------------------ random drivers
DRIVER_FAMILIES = ("mixin", "light", "node", "anynode", "symlink", "adv:alwayseq:mixin", "node", "adv:falsy:light")


def driver_plan(tier):
    if tier == "quick":
        return dict(histories=16, steps=120, sizes=(6, 8, 10, 12))
    return dict(histories=64, steps=400, sizes=(8, 10, 12, 14))


_dmemo = {}


def driver_verdicts(tier, repo=None):
    from . import driver, m2_query, query_replay

    repo = repo or core.repo_path()
    key = (tier, repo)
    if key in _dmemo:
        return _dmemo[key]
    plan = driver_plan(tier)
    base = core.seed() * 1000
    jobs = [(base + i, DRIVER_FAMILIES[i % len(DRIVER_FAMILIES)], plan["sizes"][i % len(plan["sizes"])], plan["steps"], False)
            for i in range(plan["histories"])]
    with core.pool(driver.worker_init, (repo, False), min(16, len(jobs))) as p:
        hists = core.pmap(p, driver.history, jobs)
    ops = [e for h in hists for e in h["ops"]]
    queries = [q for h in hists for q in h["queries"]]
    # mutators: TraceOps (chained within each history)
    norm = [judge.normalise(e, e["id"], haslog=True, chain=True) for e in ops]
    for h in hists:
        if h["ops"]:
            first = h["ops"][0]["id"]
            for e in norm:
                if e["id"] == first:
                    e["chain"] = False
    verdicts, stats = judge.judge_ops(norm, tag="trace-driver") if norm else ({}, None)
    # queries: TraceQuery
    qevents, direct = [], []
    for q in queries:
        o = q["obs"]
        if "raised" in o or q["changed"]:
            direct.append(q)
            continue
        qevents.append(m2_query.event_of(q, q["id"]))
    qverdicts, qstats = judge.run_judge("TraceQuery", qevents, {"Nil": "Nil"}, tag="trace-driver-q") if qevents else ({}, None)
    revents = [e for h in hists for e in h.get("resolver", [])]
    rverdicts, rstats = judge.run_judge("TraceResolver", revents, {"Nil": "Nil"}, tag="trace-driver-r") if revents else ({}, None)
    oevents = [e for h in hists for e in h.get("other", [])]
    overdicts, ostats = {}, []
    for module in ("TraceRender", "TraceExport"):
        evs = [e for m, e in oevents if m == module]
        if evs:
            v, st = judge.run_judge(module, evs, {"Nil": "Nil"}, tag="trace-driver-" + module.lower())
            overdicts.update(v)
            ostats.append(st)
    out = {"oevents": oevents, "overdicts": overdicts, "ostats": ostats, "ops": ops, "verdicts": verdicts, "queries": queries, "qverdicts": qverdicts, "direct": direct, "tlc": [s for s in (stats, qstats, rstats) if s],
           "revents": revents, "rverdicts": rverdicts,
           "plan": plan, "histories": len(hists)}
    _dmemo[key] = out
    return out


def classify_driver(res, prop):
    from . import query_replay

    out = driver_verdicts(res.tier)
    for s in out["tlc"]:
        res.add_tlc(dict(s, tag=s.get("tag", "trace-driver")), transitions=True)
    res.extra["driver_traces"] = {"histories": out["histories"], "steps_per_history": out["plan"]["steps"], "forest_sizes": list(out["plan"]["sizes"]),
                                  "mutator_events": len(out["ops"]), "query_events": len(out["queries"]), "resolver_events": len(out["revents"]),
                                  "mutator_events_explained_by_model": sum(1 for v in out["verdicts"].values() if v["explained"]),
                                  "families": list(DRIVER_FAMILIES)}
    if prop in ("C01", "C02", "C03", "C16"):
        res.trace_events += len(out["ops"])
        byid = {e["id"]: e for e in out["ops"]}
        openf = core.open_findings(prop)
        for i, v in out["verdicts"].items():
            if prop in v["violated"]:
                ids = ["C03-%s" % m for m in v.get("marks", [])]
                if prop == "C03" and v["explained"] and ids and all(x in openf for x in ids):
                    # the as-built model explains this refused/vetoed call that changes the forest, and it exercises listed deviations only
                    for x in ids:
                        res.add_known(x, 1, {"driver_event": i, "call": {k: byid[i][k] for k in ("k", "n", "v", "xs", "plan", "exc")}})
                    continue
                res.violation({"property": prop, "module": "trace-driver", "why": "recorded event %s violates %s (judged by TLC); explained by the as-built model: %s" % (
                    i, sorted(v["violated"]), v["explained"]), "event": byid[i]})
            elif not v["explained"] and not v["violated"]:
                res.drift += 1
            if not v["chained"]:
                res.notes.append("event %s does not start in the state the previous event ended in" % i)
    if prop in ("C09", "C10", "C12", "C13"):
        for s_ in out["ostats"]:
            res.add_tlc(dict(s_), transitions=True)
        byo = {e["id"]: (m, e) for m, e in out["oevents"]}
        n = 0
        for i, (m, e) in byo.items():
            mine = (prop == "C09" and m == "TraceRender") or (prop == "C10" and e.get("q") == "dict_export") or \
                   (prop == "C12" and e.get("kind") == "dot") or (prop == "C13" and e.get("kind") == "mermaid")
            if m == "raised":
                mine = {"render": "C09", "dict": "C10", "graph": "C12"}.get(e["kind"]) == prop or (e["kind"] == "graph" and prop == "C13")
                if mine:
                    res.violation({"property": prop, "module": "trace-driver", "why": "%s on live objects raised %s" % (e["kind"], e["raised"]), "event": e})
                continue
            if not mine:
                continue
            n += 1
            if prop in out["overdicts"].get(i, set()):
                if prop == "C12" and "stop_edge_only" in out["overdicts"][i]:
                    res.add_known("C12-stop_edge", 1, {"driver_event": i})
                    continue
                res.violation({"property": prop, "module": "trace-driver", "why": "%s on live objects after a mutation history violates %s (judged by TLC)" % (e.get("q", "render"), prop),
                               "event": e})
        res.trace_events += n
        return
    if prop in ("C07", "C08"):
        mine = [e for e in out["revents"] if e["q"] == ("get" if prop == "C07" else "glob")]
        res.trace_events += len(mine)
        byr = {e["id"]: e for e in out["revents"]}
        for i, v in out["rverdicts"].items():
            if prop in v:
                res.violation({"property": prop, "module": "trace-driver", "why": "Resolver call %s through a long-lived resolver on live, renamed nodes violates %s (judged by TLC)" % (i, prop),
                               "event": byr[i]})
        return
    qprops = {"nav": ("C04",), "common": ("C04",), "iters": ("C05", "C06"), "walk": ("C15",), "findall": ("C14",), "find": ("C14",), "byattr": ("C14",)}
    mine = [q for q in out["queries"] if prop in qprops[q["query"]["q"]]]
    res.trace_events += len(mine)
    byq = {q["id"]: q for q in out["queries"]}
    for i, v in out["qverdicts"].items():
        if prop in v:
            res.violation({"property": prop, "module": "trace-driver", "why": "query %s on live objects after a mutation history violates %s (judged by TLC)" % (i, sorted(v)),
                           "event": byq[i]})
    for q in out["direct"]:
        if prop in qprops[q["query"]["q"]]:
            res.violation({"property": prop, "module": "trace-driver", "why": "query raised %s / modified the tree: %s" % (q["obs"].get("raised"), q["changed"]), "event": q})


# ------------------------------------------------------------------------------------- link / copy histories (C19, C20)
_lmemo = {}


def links_plan(tier):
    return dict(histories=32, steps=120) if tier == "quick" else dict(histories=128, steps=300)


def links_verdicts(tier, repo=None):
    from . import driver_links

    repo = repo or core.repo_path()
    if (tier, repo) in _lmemo:
        return _lmemo[(tier, repo)]
    plan = links_plan(tier)
    base = core.seed() * 1000 + 500000
    jobs = [(base + i, 1 + i % 3, plan["steps"]) for i in range(plan["histories"])]
    with core.pool(driver_links.worker_init, (repo,), min(16, len(jobs))) as p:
        hists = core.pmap(p, driver_links.history, jobs)
    attr = [e for h in hists for e in h["attr"]]
    copies = [e for h in hists for e in h["copy"]]
    consts = {"Nil": "Nil", "NonNode": "NonNode", "MaxStack": 12}
    averd, astats = judge.run_judge("TraceAttrs", attr, consts, tag="trace-links-attrs") if attr else ({}, None)
    judged = [e for e in copies if "raised" not in e]
    cverd, cstats = judge.run_judge("TraceClone", [{k: e[k] for k in ("id", "pre", "post", "after", "n", "result", "bij", "root", "mut", "leaf", "extra")}
                                                   for e in judged], consts, tag="trace-links-copies") if judged else ({}, None)
    out = {"plan": plan, "histories": len(hists), "hung": sum(1 for h in hists if h.get("hung")), "attr": attr, "copies": copies,
           "averd": averd, "cverd": cverd, "tlc": [s for s in (astats, cstats) if s]}
    _lmemo[(tier, repo)] = out
    return out


def classify_links(res, prop):
    out = links_verdicts(res.tier)
    for s in out["tlc"]:
        res.add_tlc(dict(s, tag=s.get("tag", "trace-links")), transitions=True)
    acts = {}
    for e in out["attr"]:
        acts[e["act"]] = acts.get(e["act"], 0) + 1
    res.extra["link_histories"] = {"histories": out["histories"], "steps_per_history": out["plan"]["steps"], "attribute_and_structure_events": acts,
                                   "copy_events": len(out["copies"]), "histories_cut_short_by_the_time_limit": out["hung"]}
    if prop == "C20":
        res.trace_events += len(out["attr"])
        byid = {e["id"]: e for e in out["attr"]}
        for i, v in out["averd"].items():
            if "C20" in v:
                e = byid[i]
                res.violation({"property": "C20", "module": "link-history", "why": "recorded history: %s on %s violates C20 (judged by TLC)" % (e["act"], e["n"]), "event": e})
    if prop == "C19":
        res.trace_events += len(out["copies"])
        byid = {e["id"]: e for e in out["copies"]}
        for e in out["copies"]:
            if "raised" in e:
                res.violation({"property": "C19", "module": "link-history", "why": "recorded history: %s of %s: %s" % (e["how"], e["n"], e["raised"]), "event": e})
        for i, v in out["cverd"].items():
            if "C19" in v:
                e = byid[i]
                res.violation({"property": "C19", "module": "link-history", "why": "recorded history: %s of %s is not an independent, consistent, isomorphic copy (judged by TLC)" % (e["how"], e["n"]), "event": e})

"""Writes /verif/seeded/SUMMARY.md from the meta.json files."""
import json
import os

VERIF = os.path.dirname(os.path.dirname(os.path.abspath(__file__)))

BY_DESIGN = {
    "r2-C16-m2": "a TreeError-refused assignment that fires (and undoes) hooks: C16 leaves refused calls unconstrained; C18 catches it",
    "r3-C05-m2": "empty groups dropped under a filter: that is C06's statement (C06 catches it), C05 is about default arguments",
    "r4-C05-m2": "a level limit (maxlevel >= 257) ignored by the group iterators: that is C06's statement (C06 catches it), C05 is about default arguments",
    "r4-C01-m1": "needs a tree more than 1000 levels deep (a recursion limit used as a loop bound); drawn instances stop at 300 levels",
    "r4-C03-m1": "needs a node about 1000 levels below its root (recursion where the original iterates)",
    "r4-C06-m2": "needs a tree more than 1000 levels deep (a recursion limit used as a loop bound)",
    "r4-C15-m2": "needs a common ancestor chain of about 1000 levels (recursion where the original iterates)",
    "r4-C19-m2": "deepcopy goes wrong only in a window of depths that depends on the caller's stack depth",
}


def main():
    sd = os.path.join(VERIF, "seeded")
    rows, benign = [], []
    for name in sorted(os.listdir(sd)):
        mp = os.path.join(sd, name, "meta.json")
        if not os.path.exists(mp):
            continue
        m = json.load(open(mp))
        det = m.get("detected_by", [])
        ran = sorted(c for c in m.get("ran", {}).get("checks", {}))
        row = (name, m.get("property"), m.get("summary", "").replace("|", "/").replace("\n", " "), m.get("needs", "").replace("|", "/").replace("\n", " "), det,
               m.get("machinery_errors", []), ran)
        (benign if name.startswith("benign") else rows).append(row)
    with open(os.path.join(sd, "SUMMARY.md"), "w") as f:
        f.write("# Seeded changes and the checks that catch them (quick tier)\n\n")
        f.write("Each change was produced by a sub-agent that saw only the property text and a scratch worktree; kept after confirming that it applies,\n"
                "that the existing suite is unchanged (160 passed / 3 dot-binary failures) and that its demonstration fails with it and passes without it.\n"
                "`checks run` lists the checks the change was run through (the full matrix, or the checks of its module family).\n\n")
        f.write("| seed | breaks | change | needs | caught by | own check | checks run |\n|---|---|---|---|---|---|---|\n")
        for name, prop, summ, needs, det, broken, ran in rows:
            own = "yes" if prop in det else ("no: " + BY_DESIGN[name] if name in BY_DESIGN else "**NO**")
            if broken:
                own += " (machinery errors: %s)" % ", ".join(broken)
            f.write("| %s | %s | %s | %s | %s | %s | %s |\n" % (name, prop, summ[:200], needs[:200], ", ".join(det) or "-", own,
                                                            "all 20" if len(ran) == 20 else ", ".join(ran)))
        f.write("\n%d seeded changes, %d caught by the check of the property they break, %d caught by some check.\n" % (
            len(rows), sum(1 for r in rows if r[1] in r[4]), sum(1 for r in rows if r[4])))
        f.write("\n## Behaviour-preserving refactorings (must raise no alarm)\n\n| refactoring | change | alarms | machinery errors |\n|---|---|---|---|\n")
        for name, prop, summ, needs, det, broken, ran in benign:
            f.write("| %s | %s | %s | %s |\n" % (name, summ[:220], ", ".join(det) or "none", ", ".join(broken) or "none"))
        f.write("\n%d refactorings, %d with an alarm.\n" % (len(benign), sum(1 for r in benign if r[4])))
    print("SUMMARY.md: %d seeds (%d own-check), %d benign (%d alarms)" % (len(rows), sum(1 for r in rows if r[1] in r[4]), len(benign), sum(1 for r in benign if r[4])))


if __name__ == "__main__":
    main()

"""Writes /verif/seeded/SUMMARY.md from the meta.json files."""
import json
import os

VERIF = os.path.dirname(os.path.dirname(os.path.abspath(__file__)))


def main():
    sd = os.path.join(VERIF, "seeded")
    rows = []
    for name in sorted(os.listdir(sd)):
        mp = os.path.join(sd, name, "meta.json")
        if not os.path.exists(mp):
            continue
        m = json.load(open(mp))
        det = m.get("detected_by", [])
        rows.append((name, m.get("property"), m.get("summary", "").replace("|", "/"), m.get("needs", "").replace("|", "/"), det,
                     m.get("machinery_errors", [])))
    with open(os.path.join(sd, "SUMMARY.md"), "w") as f:
        f.write("# Seeded changes and the checks that catch them (quick tier unless noted)\n\n")
        f.write("| seed | breaks | change | needs | caught by | target caught |\n|---|---|---|---|---|---|\n")
        for name, prop, summ, needs, det, broken in rows:
            f.write("| %s | %s | %s | %s | %s | %s |\n" % (name, prop, summ[:160], needs[:160], ", ".join(det) or "-", "yes" if prop in det else "**NO**"))
        f.write("\n%d seeds, %d caught by the check of the property they break.\n" % (len(rows), sum(1 for r in rows if r[1] in r[4])))
    print(open(os.path.join(sd, "SUMMARY.md")).read())


if __name__ == "__main__":
    main()

"""Module M6a (symlink nodes): TLC run, replay, judging.  Serves C20."""
from . import attrs_replay, core, judge
from . import tlc as T

CONFIGS = {"quick": [dict(name="attrs-1p2l", plain=("t1",), links=("l1", "l2"), ro=()),
                     dict(name="attrs-ro2l", plain=("t1",), links=("l1", "l2"), ro=("t1",))],
           # (two ordinary and two link nodes exhaust the Java heap: 2+1 and 1+2 instead)
           "thorough": [dict(name="attrs-1p2l", plain=("t1",), links=("l1", "l2"), ro=()),
                        dict(name="attrs-ro2l", plain=("t1",), links=("l1", "l2"), ro=("t1",)),
                        dict(name="attrs-2p1l", plain=("t1", "t2"), links=("l1",), ro=("t2",))]}


def tlc_cfg(c):
    return T.cfg_text({"Nil": "Nil", "NonNode": "NonNode", "MaxStack": 12, "Plain": set(c["plain"]), "Links": set(c["links"]), "ROPlain": T.Raw("{%s}" % ", ".join('"%s"' % x for x in c["ro"]))},
                      view="View", invariants=("Inv_Forwarding", "Inv_LinksOwnNothing", "Inv_Forest"),
                      properties=("Thm_Indep", "Thm_Write"), action_constraints=("Emit",), deadlock=False)


def run_model(c, coverage=False):
    return T.run_vectors("MC_Attrs", tlc_cfg(c), c["name"], lambda st: st["generated"] - 1)


def run(tier, repo=None, procs=16):
    repo = repo or core.repo_path()
    outcomes = []
    for c in CONFIGS[tier]:
        stats = run_model(c)
        lines = T.read_lines(stats["lines_path"])
        size = max(50, min(2000, len(lines) // (procs * 4) + 1))
        with core.pool(attrs_replay.worker_init, (repo,), procs) as p:
            parts = core.pmap(p, attrs_replay.replay_chunk, list(core.chunks(lines, size)))
        tot = {"n": 0, "same": 0, "attention": [], "dropped": 0, "own_drift": 0}
        for r in parts:
            for k in ("n", "same", "dropped", "own_drift"):
                tot[k] += r[k]
            tot["attention"] += r["attention"]
        tot.update(config=c, tlc=stats, vectors=len(lines))
        outcomes.append(tot)
    events, index = [], {}
    for oi, out in enumerate(outcomes):
        for ai, att in enumerate(out["attention"]):
            if att["obs"].get("build_failed"):
                continue
            z = att["vec"]["z"]
            o = att["obs"]
            ident = "%d.%d" % (oi, ai)
            pre = {k: o["pre"][k] for k in ("alive", "tgt", "par", "ch", "reads")}
            post = {k: o["post"][k] for k in ("alive", "tgt", "par", "ch", "reads")}
            events.append({"id": ident, "act": z["act"], "n": z["n"], "a1": z["a1"], "a2": z["a2"], "pre": pre, "post": post, "exc": o["exc"]})
            index[ident] = att
    if events:
        verdicts, _ = judge.run_judge("TraceAttrs", events[:3000], {"Nil": "Nil", "NonNode": "NonNode", "MaxStack": 12}, tag="judge-attrs")
        for i, v in verdicts.items():
            index[i]["verdict"] = sorted(v)
    return outcomes


def classify(outcomes, res):
    for out in outcomes:
        res.add_tlc(out["tlc"])
        res.replayed += out["n"]
        res.extra["own_dict_drift"] = res.extra.get("own_dict_drift", 0) + out["own_drift"]
        for att in out["attention"]:
            if att["obs"].get("build_failed"):
                res.violation({"property": "C20", "module": "attrs", "why": "the pre-state (links to targets, attribute writes) could not be built: observed %s" % str(att["obs"]["built"])[:300],
                               "vec": att["vec"], "plain": att["plain"], "link": att["link"]})
            elif "C20" in att.get("verdict", []):
                res.violation({"property": "C20", "module": "attrs", "why": "observation violates C20 (judged by TLC): %s" % att["vec"]["z"]["act"],
                               "vec": att["vec"], "plain": att["plain"], "link": att["link"], "obs": att["obs"]})
            else:
                res.drift += 1
    res.extra["configs"] = [o["config"] for o in outcomes]

"""Seeded random drivers: long histories of mutator calls (with fault plans) and queries on the same live objects of the real
code, recorded as traces that TLC validates (TraceOps / TraceQuery).  Larger forests (8-14 nodes) than the exhaustive models."""
import json
import random
import sys

from . import core, query_replay, resolver_replay

NAMEPOOL = ["a", "b", "c", "A", "ab", "a.b"]


def worker_init(repo, assertions=False):
    import os

    os.environ["ANYTREE_ASSERTIONS"] = "1" if assertions else "0"
    sys.path.insert(0, repo)
    import anytree  # noqa

    assert os.path.abspath(anytree.__file__).startswith(os.path.abspath(repo)), anytree.__file__
    from . import nodes  # noqa

    sys.setrecursionlimit(220)


def well_formed(par, ch):
    """Harness safety guard (not a verdict): on a forest whose two views disagree or that has a parent cycle the library's own
    traversals may not terminate, so a history stops right after the call that produced it (that call is recorded and judged)."""
    for n, p in par.items():
        if p != "Nil" and (p not in ch or ch[p].count(n) != 1):
            return False
    for p, kids in ch.items():
        for k in kids:
            if par.get(k) != p:
                return False
    for n in par:
        seen, cur = set(), n
        while cur != "Nil":
            if cur in seen or cur not in par:
                return False
            seen.add(cur)
            cur = par[cur]
    return True


@core.safe_worker
def history(args):
    """One history (under an overall deadline: a library call that never returns ends it)."""
    from . import core

    try:
        return core._deadline(lambda: _history(args), 150)
    except core.Hang:
        seed, family = args[0], args[1]
        return {"ops": [], "queries": [], "resolver": [], "other": [("raised", {"id": "%s-%d" % (family, seed), "kind": "history", "raised": "Hang: a library call did not return"})],
                "family": family, "seed": seed, "hung": True}


def _history(args):
    """One history: returns {"ops": [...], "queries": [...]} (events in the judge formats)."""
    from . import core
    seed, family, size, steps, asrt = args
    from . import nodes as N
    from . import ops_replay

    rnd = random.Random(seed)
    labels = ["n%d" % i for i in range(1, size + 1)]
    par = {l: "Nil" for l in labels}
    ch = {l: [] for l in labels}
    N.build_forest(family, par, ch)
    strict = N.FAMILIES[family]["strict"]
    objs = N.Ctx.objs
    ops, queries, resolver_events, recent, asked, hits, exports, other_events = [], [], [], [], [], [], [], []
    hid = "%s-%d" % (family, seed)
    names = None
    if family in ("node", "anynode", "mixin"):
        from anytree import Resolver

        names = {l: rnd.choice(NAMEPOOL) for l in labels}
        for l in labels:
            objs[l].name = names[l]
        resolvers = {(ic, relax): Resolver("name", ignorecase=ic, relax=relax) for ic in (False, True) for relax in (False, True)}

    def plan():
        r = rnd.random()
        if r < 0.6:
            return {"mode": "none", "ks": [], "kinds": [], "nodes": []}
        if r < 0.85:
            return {"mode": "once", "ks": sorted(rnd.sample(range(1, 9), rnd.choice((1, 1, 2)))), "kinds": [], "nodes": []}
        kinds = rnd.choice((["pre_detach"], ["pre_attach"], ["pre_detach", "pre_attach"], ["post_attach"], ["pre_detach_children"],
                            ["post_detach"], ["pre_attach_children"]))
        return {"mode": "persist", "ks": [], "kinds": kinds, "nodes": sorted(rnd.sample(labels, rnd.randint(1, size)))}

    pending = []
    for step in range(steps):
        r = rnd.random()
        prepar, prech = N.snapshot()
        if r < (0.55 if names is None else 0.40) or pending:
            # ---- a mutator call
            kind = rnd.choice(("sp", "sp", "sp", "sc", "sc", "dc"))
            n = rnd.choice(labels)
            call = {"k": kind, "n": n, "v": "Nil", "xs": [], "bad": False}
            if pending:
                # the node whose last children assignment failed under a persistent veto is asked again, this time for
                # something that is refused half-way (a loop) with no fault injected: the refusal must still restore everything
                kind, n = "sc", pending.pop()
                call = {"k": kind, "n": n, "v": "Nil", "xs": [rnd.choice([l for l in labels if l != n] or [n]), n], "bad": False}
            elif kind == "sp":
                call["v"] = rnd.choice(labels + ["Nil", "Nil"])
            elif kind == "sc":
                xs = rnd.sample(labels, rnd.randint(0, 4))
                if xs and rnd.random() < 0.1:
                    xs.append(xs[0])
                call["xs"] = xs
            p = plan() if len(call["xs"]) != 2 or call["xs"][1] != n else {"mode": "none", "ks": [], "kinds": [], "nodes": []}
            N.reset(p)
            exc, src = "Nil", 0
            def _mutate():
                if kind == "sp":
                    objs[n].parent = None if call["v"] == "Nil" else objs[call["v"]]
                elif kind == "dc":
                    del objs[n].children
                else:
                    objs[n].children = ops_replay.as_iterable([objs[x] for x in call["xs"]], step)

            try:
                core._deadline(_mutate, 10)
            except BaseException as e:  # noqa
                if isinstance(e, (KeyboardInterrupt, SystemExit, core.Hang)):
                    raise
                exc = N.exc_token(e)
                src = getattr(e, "src", 0) if exc == "HookFault" else 0
            log = N.Ctx.log
            N.Ctx.log = None
            postpar, postch = N.snapshot()
            ev = dict(call, plan=p, strict=strict, asrt=asrt, prepar=prepar, prech=prech, postpar=postpar, postch=postch,
                      exc=exc, src=src, log=log if exc != "RecursionError" else log[:12], id="%s.%d" % (hid, step))
            ops.append(ev)
            if not well_formed(postpar, postch):
                break
            if kind == "sc" and p["mode"] == "persist" and exc != "Nil" and rnd.random() < 0.8:
                pending.append(n)
        elif r < 0.50 and names is not None:
            # ---- rename a node (changes what paths denote; the resolvers below are long-lived objects)
            # (preferably a node a path was just resolved to: a resolver that remembers results must notice)
            lbl = rnd.choice(hits) if hits and rnd.random() < 0.6 else rnd.choice(labels)
            names[lbl] = rnd.choice(NAMEPOOL)
            objs[lbl].name = names[lbl]
        elif r < 0.75 and names is not None:
            # ---- Resolver.get / glob through long-lived resolver objects
            again = None
            if asked and rnd.random() < 0.5:
                start, comps, ic, again = rnd.choice(asked)      # the same question again, through the same resolver object
            else:
                if rnd.random() < 0.5:
                    # a path that exists right now: down from a random node along current names
                    start = rnd.choice(labels)
                    comps, cur = [], objs[start]
                    while cur.children and len(comps) < 3 and rnd.random() < 0.8:
                        cur = rnd.choice(cur.children)
                        comps.append(names[N.label(cur)])
                    comps = comps or ["."]
                else:
                    comps = [rnd.choice(NAMEPOOL + ["..", ".", "", "zz", "*", "a*", "?", "**"]) for _ in range(rnd.randint(1, 3))]
                    start = rnd.choice(labels)
                if rnd.random() < 0.25:
                    root = objs[start].root
                    comps = ["", names[N.label(root)]] + comps
                ic = rnd.random() < 0.4
            wild = any(("*" in c or "?" in c) for c in comps)
            path = "/".join(comps)
            ev = {"id": "%s.%d" % (hid, step), "par": prepar, "ch": prech, "names": {l: list(v) for l, v in names.items()}, "s": start,
                  "cs": [list(c) for c in comps], "ic": ic}
            saved = N.Ctx.log
            N.Ctx.log = None
            if again is None:
                again = ("glob", False) if (any(("*" in c or "?" in c) for c in comps) or rnd.random() < 0.3) else ("get", rnd.random() < 0.4)
                asked.append((start, list(comps), ic, again))
                del asked[:-5]
            if again[0] == "glob":
                ev["q"] = "glob"
                ev["runs"] = [{"strict": resolver_replay.outcome(lambda: resolvers[(ic, False)].glob(objs[start], path), N.label),
                               "relaxed": resolver_replay.outcome(lambda: resolvers[(ic, True)].glob(objs[start], path), N.label)}]
            else:
                relax = again[1]
                ev.update(q="get", relax=relax, res=resolver_replay.outcome(lambda: resolvers[(ic, relax)].get(objs[start], path), N.label, payload=True))
                hits.extend(ev["res"]["val"])
                del hits[:-4]
            N.Ctx.log = saved
            resolver_events.append(ev)
        elif r < 0.85 and names is not None:
            # ---- RenderTree / DictExporter / DotExporter / MermaidExporter on the live objects (re-asked like the queries)
            from anytree import AsciiStyle, PreOrderIter, RenderTree
            from anytree.exporter import DictExporter, DotExporter, MermaidExporter
            from . import export_replay, render_replay

            if exports and rnd.random() < 0.5:
                kind, start, ml, extra = rnd.choice(exports)
            else:
                kind = rnd.choice(("render", "dict", "graph"))
                start, ml = rnd.choice(labels), rnd.choice((query_replay.NOMAX, query_replay.NOMAX, 0, 1, 2, 3))
                extra = rnd.choice(("list", "reversed")) if kind != "graph" else (sorted(rnd.sample(labels, rnd.choice((0, 0, 1)))), sorted(rnd.sample(labels, rnd.choice((0, 0, 1, 2)))))
                exports.append((kind, start, ml, extra))
                del exports[:-5]
            pyml = None if ml == query_replay.NOMAX else ml
            lab = N.label
            saved = N.Ctx.log
            N.Ctx.log = None
            eid = "%s.%d" % (hid, step)
            try:
                if kind == "render":
                    segs = render_replay.seg_strings(AsciiStyle())
                    ci = list if extra == "list" else (lambda c: list(reversed(c)))
                    rows = [{"pre": render_replay.derender(rw.pre, segs), "fill": render_replay.derender(rw.fill, segs), "node": lab(rw.node)}
                            for rw in RenderTree(objs[start], style=AsciiStyle(), childiter=ci, maxlevel=pyml)]
                    other_events.append(("TraceRender", {"id": eid, "par": prepar, "ch": prech, "s": start,
                                                         "ci": {"kind": extra, "hide": [], "key": {l: i for i, l in enumerate(labels)}}, "ml": ml,
                                                         "nl": {l: 1 for l in labels}, "rows": rows, "text": [], "hastext": False}))
                elif kind == "dict":
                    ci = list if extra == "list" else (lambda c: list(reversed(c)))
                    got = DictExporter(childiter=ci, maxlevel=pyml).export(objs[start])
                    attrs = {l: [["name", names[l]]] for l in labels}
                    other_events.append(("TraceExport", {"id": eid, "q": "dict_export", "par": prepar, "ch": prech, "attrs": attrs, "s": start,
                                                         "o": {"attriter": "none", "ml": ml, "ci": {"kind": extra, "hide": [], "key": {l: i for i, l in enumerate(labels)}}},
                                                         "obs": export_replay.flatten_d(export_replay.derender_dict(got, sorted(set(names.values()))))}))
                else:
                    hide, st = extra
                    fls, sts = set(labels) - set(hide), set(st)
                    kw = dict(filter_=lambda n: lab(n) in fls, stop=lambda n: lab(n) in sts, maxlevel=pyml)
                    it = [lab(x) for x in PreOrderIter(objs[start], **kw)]
                    id2 = {l: l for l in labels}
                    for gk, cls in (("dot", DotExporter), ("mermaid", MermaidExporter)):
                        lines = list(cls(objs[start], nodenamefunc=lambda n: lab(n), **kw))
                        other_events.append(("TraceExport", {"id": eid + gk, "q": "graph", "kind": gk, "par": prepar, "ch": prech, "s": start, "st": sorted(st),
                                                             "fl": sorted(fls), "ml": ml, "iter": it, "obs": export_replay.derender_graph(gk, lines, 1, id2)}))
            except Exception as e:  # noqa
                other_events.append(("raised", {"id": eid, "kind": kind, "raised": "%s: %s" % (type(e).__name__, str(e)[:200])}))
            N.Ctx.log = saved
        elif r < 0.90:
            # ---- probe / move an ancestor / same probe again, with nothing else in between: results must follow the tree
            lab = N.label
            deep = [l for l in labels if objs[l].parent is not None and objs[l].parent.parent is not None]
            if not deep:
                continue
            a = rnd.choice(deep)
            b = rnd.choice(labels)
            probe = rnd.choice(({"q": "walk", "s": a, "e": b}, {"q": "walk", "s": b, "e": a}, {"q": "nav", "n": a},
                               {"q": "common", "ns": [a, b]}, {"q": "find", "s": lab(objs[a].root), "st": [], "fl": [a], "ml": query_replay.NOMAX}))
            anc = objs[a].parent.parent if rnd.random() < 0.7 else objs[a].parent
            others = [l for l in labels if objs[l] is not anc and not any(x is anc for x in objs[l].path)]
            target = rnd.choice(others + ["Nil"])
            saved = N.Ctx.log
            N.Ctx.log = None
            stop = False
            for phase in ("before", "move", "after"):
                if phase == "move":
                    p0 = N.snapshot()
                    N.reset(None)
                    exc = "Nil"
                    try:
                        core._deadline(lambda: setattr(anc, "parent", None if target == "Nil" else objs[target]), 10)
                    except Exception as e:  # noqa
                        exc = N.exc_token(e)
                    log = N.Ctx.log
                    N.Ctx.log = None
                    p1 = N.snapshot()
                    ops.append(dict(k="sp", n=lab(anc), v=target, xs=[], bad=False, plan={"mode": "none", "ks": [], "kinds": [], "nodes": []},
                                    strict=strict, asrt=asrt, prepar=p0[0], prech=p0[1], postpar=p1[0], postch=p1[1], exc=exc, src=0, log=log,
                                    id="%s.%d.move" % (hid, step)))
                    if not well_formed(*p1):
                        stop = True
                        break
                    continue
                cur = N.snapshot()
                try:
                    obs = core._deadline(lambda: query_replay.perform(probe, family, cur[0], cur[1], objs=objs), 10)
                except (Exception, core.Hang) as e:  # noqa
                    obs = {"q": probe["q"], "raised": "%s: %s" % (type(e).__name__, str(e)[:200])}
                    stop = stop or isinstance(e, core.Hang)
                queries.append({"id": "%s.%d.%s" % (hid, step, phase), "par": cur[0], "ch": cur[1], "query": dict(probe), "obs": obs, "changed": False})
            N.Ctx.log = saved
            if stop:
                break
        elif r < 0.94 and names is not None:
            # ---- resolve an existing path / rename what it led to (a sibling may take over the old name) / resolve again
            lab = N.label
            start = rnd.choice(labels)
            comps, cur = [], objs[start]
            while cur.children and len(comps) < 3 and (not comps or rnd.random() < 0.7):
                cur = rnd.choice(cur.children)
                comps.append(names[lab(cur)])
            if not comps:
                continue
            ic, relax = rnd.random() < 0.3, rnd.random() < 0.3
            path = "/".join(comps)
            saved = N.Ctx.log
            N.Ctx.log = None
            for phase in ("before", "after"):
                snap = N.snapshot()
                ev = {"id": "%s.%d.%s" % (hid, step, phase), "par": snap[0], "ch": snap[1], "names": {l: list(v) for l, v in names.items()}, "s": start,
                      "cs": [list(c) for c in comps], "ic": ic, "q": "get", "relax": relax,
                      "res": resolver_replay.outcome(lambda: resolvers[(ic, relax)].get(objs[start], path), N.label, payload=True)}
                resolver_events.append(ev)
                if phase == "before":
                    victim = ev["res"]["val"][0] if ev["res"]["val"] else lab(cur)
                    old = names[victim]
                    sibs = [lab(x) for x in objs[victim].siblings]
                    names[victim] = rnd.choice([n for n in NAMEPOOL if n != old])
                    objs[victim].name = names[victim]
                    if sibs and rnd.random() < 0.6:
                        heir = rnd.choice(sibs)
                        names[heir] = old
                        objs[heir].name = old
            N.Ctx.log = saved
        else:
            # ---- a query on the live objects (half of the time: an earlier query again, which exposes stale caches)
            q = rnd.choice(("nav", "nav", "common", "iters", "iters", "iters", "walk", "find", "findall", "sweep") + (("byattr", "byattr") if names is not None else ()))
            if q == "sweep":
                for lbl in labels:
                    query = {"q": "nav", "n": lbl}
                    obs = query_replay.perform(query, family, prepar, prech, objs=objs)
                    queries.append({"id": "%s.%d.%s" % (hid, step, lbl), "par": prepar, "ch": prech, "query": query, "obs": obs, "changed": False})
                continue
            query = {"q": q}
            if recent and rnd.random() < 0.5:
                query = dict(rnd.choice(recent))
                q = query["q"]
            elif q == "byattr":
                # the attribute is the (renamable) name; identical arguments recur, which is what a memoising search must survive
                query.update(s=rnd.choice(labels[:3]), value=rnd.choice(NAMEPOOL[:3]), ml=rnd.choice((query_replay.NOMAX, query_replay.NOMAX, 2)),
                             minc=-1, maxc=-1, attrname="name")
            elif q == "nav":
                query["n"] = rnd.choice(labels)
            elif q == "common":
                query["ns"] = [rnd.choice(labels) for _ in range(rnd.randint(0, 3))]
            elif q == "walk":
                query.update(s=rnd.choice(labels), e=rnd.choice(labels))
            else:
                hide = rnd.sample(labels, rnd.choice((0, 0, 1, 2, 3)))
                query.update(s=rnd.choice(labels), st=sorted(rnd.sample(labels, rnd.choice((0, 0, 1, 2)))),
                             fl=sorted(set(labels) - set(hide)), ml=rnd.choice((query_replay.NOMAX, query_replay.NOMAX, 0, 1, 2, 3, 4)))
                if q == "findall":
                    query.update(minc=rnd.choice((-1, -1, 0, 1, 2, 3)), maxc=rnd.choice((-1, -1, 0, 1, 2, 5)))
            if q == "byattr":
                query["attr"] = dict(names)          # the attribute values as they are right now
            recent.append(dict(query))
            del recent[:-6]
            saved = N.Ctx.log
            N.Ctx.log = None
            hung = False
            try:
                obs = core._deadline(lambda: query_replay.perform(query, family, prepar, prech, objs=objs), 10)
            except (Exception, core.Hang) as e:  # noqa
                obs = {"q": q, "raised": "%s: %s" % (type(e).__name__, str(e)[:200])}
                hung = isinstance(e, core.Hang)
            N.Ctx.log = saved
            after = N.snapshot()
            queries.append({"id": "%s.%d" % (hid, step), "par": prepar, "ch": prech, "query": query, "obs": obs,
                            "changed": after != (prepar, prech)})
            if hung:
                break
    return {"ops": ops, "queries": queries, "resolver": resolver_events, "other": other_events, "family": family, "seed": seed}

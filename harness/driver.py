"""Seeded random drivers: long histories of mutator calls (with fault plans) and queries on the same live objects of the real
code, recorded as traces that TLC validates (TraceOps / TraceQuery).  Larger forests (8-14 nodes) than the exhaustive models."""
import json
import random
import sys

from . import query_replay


def worker_init(repo, assertions=False):
    import os

    os.environ["ANYTREE_ASSERTIONS"] = "1" if assertions else "0"
    sys.path.insert(0, repo)
    import anytree  # noqa

    assert os.path.abspath(anytree.__file__).startswith(os.path.abspath(repo)), anytree.__file__
    from . import nodes  # noqa

    sys.setrecursionlimit(220)


def history(args):
    """One history: returns {"ops": [...], "queries": [...]} (events in the judge formats)."""
    seed, family, size, steps, asrt = args
    from . import nodes as N
    from . import ops_replay

    rnd = random.Random(seed)
    labels = ["n%d" % i for i in range(1, size + 1)]
    par = {l: "Nil" for l in labels}
    ch = {l: [] for l in labels}
    N.build_forest(family, par, ch)
    strict = N.FAMILIES[family]["strict"]
    objs = N.Ctx.objs
    ops, queries = [], []
    hid = "%s-%d" % (family, seed)

    def plan():
        r = rnd.random()
        if r < 0.6:
            return {"mode": "none", "ks": [], "kinds": [], "nodes": []}
        if r < 0.85:
            return {"mode": "once", "ks": sorted(rnd.sample(range(1, 9), rnd.choice((1, 1, 2)))), "kinds": [], "nodes": []}
        kinds = rnd.choice((["pre_detach"], ["pre_attach"], ["pre_detach", "pre_attach"], ["post_attach"], ["pre_detach_children"],
                            ["post_detach"], ["pre_attach_children"]))
        return {"mode": "persist", "ks": [], "kinds": kinds, "nodes": sorted(rnd.sample(labels, rnd.randint(1, size)))}

    for step in range(steps):
        r = rnd.random()
        prepar, prech = N.snapshot()
        if r < 0.55:
            # ---- a mutator call
            kind = rnd.choice(("sp", "sp", "sp", "sc", "sc", "dc"))
            n = rnd.choice(labels)
            call = {"k": kind, "n": n, "v": "Nil", "xs": [], "bad": False}
            if kind == "sp":
                call["v"] = rnd.choice(labels + ["Nil", "Nil"])
            elif kind == "sc":
                xs = rnd.sample(labels, rnd.randint(0, 4))
                if xs and rnd.random() < 0.1:
                    xs.append(xs[0])
                call["xs"] = xs
            p = plan()
            N.reset(p)
            exc, src = "Nil", 0
            try:
                if kind == "sp":
                    objs[n].parent = None if call["v"] == "Nil" else objs[call["v"]]
                elif kind == "dc":
                    del objs[n].children
                else:
                    objs[n].children = ops_replay.as_iterable([objs[x] for x in call["xs"]], step)
            except BaseException as e:  # noqa
                if isinstance(e, (KeyboardInterrupt, SystemExit)):
                    raise
                exc = N.exc_token(e)
                src = getattr(e, "src", 0) if exc == "HookFault" else 0
            log = N.Ctx.log
            N.Ctx.log = None
            postpar, postch = N.snapshot()
            ev = dict(call, plan=p, strict=strict, asrt=asrt, prepar=prepar, prech=prech, postpar=postpar, postch=postch,
                      exc=exc, src=src, log=log if exc != "RecursionError" else log[:12], id="%s.%d" % (hid, step))
            ops.append(ev)
        else:
            # ---- a query on the live objects
            q = rnd.choice(("nav", "nav", "common", "iters", "iters", "iters", "walk", "find", "findall"))
            query = {"q": q}
            if q == "nav":
                query["n"] = rnd.choice(labels)
            elif q == "common":
                query["ns"] = [rnd.choice(labels) for _ in range(rnd.randint(0, 3))]
            elif q == "walk":
                query.update(s=rnd.choice(labels), e=rnd.choice(labels))
            else:
                hide = rnd.sample(labels, rnd.choice((0, 0, 1, 2, 3)))
                query.update(s=rnd.choice(labels), st=sorted(rnd.sample(labels, rnd.choice((0, 0, 1, 2)))),
                             fl=sorted(set(labels) - set(hide)), ml=rnd.choice((query_replay.NOMAX, query_replay.NOMAX, 0, 1, 2, 3, 4)))
                if q == "findall":
                    query.update(minc=rnd.choice((-1, -1, 0, 1, 2, 3)), maxc=rnd.choice((-1, -1, 0, 1, 2, 5)))
            saved = N.Ctx.log
            N.Ctx.log = None
            try:
                obs = query_replay.perform(query, family, prepar, prech, objs=objs)
            except Exception as e:  # noqa
                obs = {"q": q, "raised": "%s: %s" % (type(e).__name__, str(e)[:200])}
            N.Ctx.log = saved
            after = N.snapshot()
            queries.append({"id": "%s.%d" % (hid, step), "par": prepar, "ch": prech, "query": query, "obs": obs,
                            "changed": after != (prepar, prech)})
    return {"ops": ops, "queries": queries, "family": family, "seed": seed}

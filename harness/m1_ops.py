"""Module M1 (NodeOps): TLC run(s), replay into the real mutators, judging.  Serves C01 C02 C03 C16 C18 (C17, C20)."""
import random

from . import core, judge, ops_replay
from . import tlc as T

PLAIN = ("mixin", "light")
OTHERS = ("node", "anynode", "symlink", "symlinkmixin",
          # classes with their own comparison / hashing / truth methods are node classes, too (C01 C02 C03 C16 quantify over them)
          "adv:alwayseq:mixin", "adv:alwayseq:light", "adv:nevereq:light", "adv:unhashable:mixin", "adv:falsy:light")


def configs(tier):
    if tier == "quick":
        return [
            dict(name="ops-n4", N=4, MaxLen=3, FaultMode=2, WithNonNode=False, WithCtor=False, CheckIndep=False, sample_others=8),
            dict(name="ops-n3x", N=3, MaxLen=2, FaultMode=2, WithNonNode=True, WithCtor=True, CheckIndep=True, sample_others=1),
        ]
    return [
        dict(name="ops-n4", N=4, MaxLen=3, FaultMode=2, WithNonNode=False, WithCtor=False, CheckIndep=False, sample_others=1),
        dict(name="ops-n3x", N=3, MaxLen=3, FaultMode=4, WithNonNode=True, WithCtor=True, CheckIndep=True, sample_others=1),
        dict(name="ops-n4-2f", N=4, MaxLen=2, FaultMode=4, WithNonNode=False, WithCtor=True, CheckIndep=False, sample_others=4),
        dict(name="ops-n3-2f", N=3, MaxLen=3, FaultMode=4, WithNonNode=False, WithCtor=False, CheckIndep=False, sample_others=2, two=True),
        dict(name="ops-n5", N=5, MaxLen=2, FaultMode=1, WithNonNode=False, WithCtor=False, CheckIndep=False, sample_others=16),
    ]


ALL_PCS = {"sp_entry", "sp_pre_detach", "sp_do_detach", "sp_post_detach", "sp_pre_attach", "sp_do_attach", "sp_post_attach",
           "dc_entry", "dc_loop", "dc_post", "sc_entry", "sc_after_del", "sc_loop", "sc_post", "sc_handler", "sc_reraise",
           "ct_entry", "ct_children", "ct_done"}
THEOREMS = ("Thm_C01", "Thm_C02", "Thm_C03", "Thm_C16", "Thm_Outcome", "Thm_Recursion", "Thm_Indep")


def tlc_cfg(c):
    fm = c["FaultMode"]
    if c.get("two"):
        fm = 3
    return T.cfg_text(
        {"Node": T.mv_set("n", c["N"]), "Nil": T.Raw("Nil"), "NonNode": T.Raw("NonNode"), "MaxStack": 12,
         "MaxLen": c["MaxLen"], "FaultMode": fm, "Strict": True, "Asrt": False,
         "WithNonNode": c["WithNonNode"], "WithCtor": c["WithCtor"], "CheckIndep": c["CheckIndep"]},
        view="View", symmetry="Sym", invariants=("Inv_C01",), properties=THEOREMS, action_constraints=("Emit",))


def run_model(c, coverage=False):
    return T.run_vectors("MC_Ops", tlc_cfg(c), c["name"], lambda st: st["generated"] - 1)


def _replay(lines, families, asrt, lockstep, repo, procs=16):
    with core.pool(ops_replay.worker_init, (repo, asrt), procs) as p:
        size = max(50, min(2000, len(lines) // (procs * 4) + 1))
        parts = core.pmap(p, ops_replay.replay_chunk, [(ch, families, lockstep) for ch in core.chunks(lines, size)])
    tot = {"n": 0, "same": 0, "known": {}, "attention": [], "per_family": {}, "recursion": 0, "lockstep_diff": [],
           "dropped": 0}
    tot["pcs"] = set()
    for r in parts:
        tot["pcs"] |= set(r.get("pcs", ()))
        tot["dropped"] += r["dropped"]
        tot["n"] += r["n"]
        tot["same"] += r["same"]
        tot["recursion"] += r["recursion"]
        tot["attention"] += r["attention"]
        tot["lockstep_diff"] += r["lockstep_diff"]
        for f, k in r["per_family"].items():
            tot["per_family"][f] = tot["per_family"].get(f, 0) + k
        for key, k in r["known"].items():
            t = tot["known"].setdefault(key, {"count": 0, "witness": None})
            t["count"] += k["count"]
            t["witness"] = t["witness"] or k["witness"]
    return tot


_memo = {}


def run(tier, repo=None, only=None):
    """Run all M1 configurations of the tier.  Returns a list of per-(config, assertion setting) outcomes."""
    repo = repo or core.repo_path()
    key = (tier, repo, only)
    if key in _memo:
        return _memo[key]
    rnd = random.Random(core.seed())
    outcomes = []
    for c in configs(tier):
        if only and c["name"] not in only:
            continue
        stats = run_model(c)
        lines = T.read_lines(stats["lines_path"])
        for asrt in (False, True):
            fams = list(PLAIN)
            tot = _replay(lines, fams, asrt, [PLAIN], repo)
            tot.update(config=c, asrt=asrt, tlc=stats, families=fams, vectors=len(lines))
            outcomes.append(tot)
            missing = ALL_PCS - tot["pcs"] - (set() if c["WithCtor"] else {"ct_entry", "ct_children", "ct_done"})
            if missing:
                # vacuity control: a model run that never reaches a program point of the interpreter proves nothing about it
                raise T.MachineryError("%s: program points of NodeOps!Step never exercised by the model: %s" % (c["name"], sorted(missing)))
        # the other class families on a seeded sample (all of them in the thorough tier's main configuration)
        k = c["sample_others"]
        off = rnd.randrange(k)
        sub = lines[off::k]
        tot = _replay(sub, list(OTHERS), False, None, repo)
        tot.update(config=c, asrt=False, tlc=stats, families=list(OTHERS), vectors=len(sub))
        outcomes.append(tot)
    if not only:
        outcomes.append(run_sim(tier, repo))
        outcomes += run_wide(tier, repo)
    _judge(outcomes)
    _memo[key] = outcomes
    return outcomes


WIDE = {"quick": dict(name="ops-wide40", N=46, Wide=40, Draws=2, MaxLen=3), "thorough": dict(name="ops-wide70", N=76, Wide=70, Draws=4, MaxLen=3)}


def run_wide(tier, repo):
    """Beyond the exhaustive bounds: a node with dozens of children (MC_OpsBig), a fixed list of calls under drawn fault plans."""
    c = dict(WIDE[tier], FaultMode=2, WithNonNode=False, WithCtor=False, CheckIndep=False)
    cfg = T.cfg_text(
        {"Node": T.mv_set("n", c["N"]), "Nil": T.Raw("Nil"), "NonNode": T.Raw("NonNode"), "MaxStack": 12, "MaxLen": 3, "FaultMode": 2,
         "Strict": True, "Asrt": False, "WithNonNode": False, "WithCtor": False, "CheckIndep": False, "Wide": c["Wide"], "Draws": c["Draws"]},
        init="BigInit", next_="BigNext", view="BigView", properties=THEOREMS[:6], action_constraints=("Emit",), deadlock=False)
    stats = T.run_vectors("MC_OpsBig", cfg, c["name"], lambda st: st["generated"] - 1, workers=1, extra=("-seed", str(23 + core.seed())))
    lines = T.read_lines(stats["lines_path"])
    outs = []
    for asrt in (False, True):
        tot = _replay(lines, list(PLAIN), asrt, [PLAIN], repo)
        tot.update(config=c, asrt=asrt, tlc=stats, families=list(PLAIN), vectors=len(lines))
        outs.append(tot)
    tot = _replay(lines, list(OTHERS), False, None, repo)
    tot.update(config=c, asrt=False, tlc=stats, families=list(OTHERS), vectors=len(lines))
    outs.append(tot)
    return outs


SIM = {"quick": dict(name="ops-sim5", N=5, MaxLen=3, num=320, depth=40), "thorough": dict(name="ops-sim6", N=6, MaxLen=3, num=1600, depth=60)}
SIM_FAMILIES = ("mixin", "light", "node", "anynode", "symlink", "adv:alwayseq:mixin", "adv:falsy:light")


def run_sim(tier, repo, procs=16):
    """Histories: tlc -simulate on MC_OpsSim, each behaviour replayed as one chain of calls on the same live objects."""
    c = dict(SIM[tier], FaultMode=4, WithNonNode=False, WithCtor=False, CheckIndep=False)
    seed = 7 + core.seed()
    cfg = T.cfg_text(
        {"Node": T.mv_set("n", c["N"]), "Nil": T.Raw("Nil"), "NonNode": T.Raw("NonNode"), "MaxStack": 12,
         "MaxLen": c["MaxLen"], "FaultMode": 4, "Strict": True, "Asrt": False, "WithNonNode": False, "WithCtor": False, "CheckIndep": False},
        next_="SimNext", invariants=("Inv_C01",), properties=THEOREMS[:6], action_constraints=("Emit",))
    stats = T.run_tlc("MC_OpsSim", cfg, tag=c["name"], workers=1, timeout=7200,
                      extra=("-simulate", "num=%d" % c["num"], "-depth", str(c["depth"]), "-seed", str(seed)))
    T.require_ok(stats)
    if stats["lines"] != c["num"] * c["depth"]:
        raise T.MachineryError("%s: %d vectors emitted for %d simulated steps" % (c["name"], stats["lines"], c["num"] * c["depth"]))
    stats["generated"] = stats["generated"] or stats["lines"] + 1
    stats["simulated_behaviours"] = c["num"]
    lines = T.read_lines(stats["lines_path"])
    per = c["depth"] * max(1, c["num"] // (procs * 2))
    jobs = [(lines[i:i + per], [f]) for i in range(0, len(lines), per) for f in SIM_FAMILIES]
    with core.pool(ops_replay.worker_init, (repo, False), procs) as p:
        parts = core.pmap(p, ops_replay.replay_chains, jobs)
    tot = {"n": 0, "same": 0, "known": {}, "attention": [], "per_family": {}, "recursion": 0, "lockstep_diff": [], "dropped": 0,
           "pcs": set(), "continued": 0, "longest_chain": 0}
    for r in parts:
        for k in ("n", "same", "recursion", "dropped", "continued"):
            tot[k] += r[k]
        tot["pcs"] |= set(r["pcs"])
        tot["longest_chain"] = max(tot["longest_chain"], r["longest_chain"])
        tot["attention"] += r["attention"]
        for f, k in r["per_family"].items():
            tot["per_family"][f] = tot["per_family"].get(f, 0) + k
        for key, k in r["known"].items():
            t = tot["known"].setdefault(key, {"count": 0, "witness": None})
            t["count"] += k["count"]
            t["witness"] = t["witness"] or k["witness"]
    if tot["continued"] < tot["n"] // 2 and tot["same"] > 0.9 * tot["n"]:
        # (vacuity control for the unchanged tree; with a broken implementation chains break wherever the code leaves the model)
        raise T.MachineryError("%s: only %d of %d simulated calls continued a history on live objects" % (c["name"], tot["continued"], tot["n"]))
    tot.update(config=c, asrt=False, tlc=stats, families=list(SIM_FAMILIES), vectors=len(lines))
    return tot


RE = {"quick": [dict(name="ops-re3", N=3, MaxLen=2)], "thorough": [dict(name="ops-re3", N=3, MaxLen=3), dict(name="ops-re4", N=4, MaxLen=2)]}
RE_OTHERS = ("node", "anynode", "symlink", "adv:alwayseq:mixin", "adv:falsy:light")
_rememo = {}


def run_re_model(c, asrt):
    cfg = T.cfg_text(
        {"Node": T.mv_set("n", c["N"]), "Nil": T.Raw("Nil"), "NonNode": T.Raw("NonNode"), "MaxStack": 12,
         "MaxLen": c["MaxLen"], "FaultMode": 0, "Strict": True, "Asrt": asrt, "WithNonNode": False, "WithCtor": False, "CheckIndep": False},
        next_="ReNext", view="View", symmetry="Sym", properties=("Thm_Re",), action_constraints=("ReEmit",), deadlock=False)
    return T.run_vectors("MC_OpsRe", cfg, c["name"] + ("-asrt" if asrt else ""), lambda st: st["generated"] - 1)


def run_re(tier, repo=None, procs=16):
    """Re-entrant hooks (MC_OpsRe): for every hook invocation of every call, every call `m.parent = w` the hook could make."""
    repo = repo or core.repo_path()
    if (tier, repo) in _rememo:
        return _rememo[(tier, repo)]
    outcomes = []
    for c in RE[tier]:
        for asrt in (False, True):
            stats = run_re_model(c, asrt)
            lines = T.read_lines(stats["lines_path"])
            jobs = [(lines, list(PLAIN), [PLAIN], asrt)] + ([(lines[core.seed() % 2::2], list(RE_OTHERS), None, asrt)] if not asrt else [])
            for sub, fams, lock, a in jobs:
                with core.pool(ops_replay.worker_init, (repo, a), procs) as p:
                    size = max(50, min(1000, len(sub) // (procs * 4) + 1))
                    parts = core.pmap(p, ops_replay.replay_chunk_re, [(ch, fams, lock) for ch in core.chunks(sub, size)])
                tot = {"n": 0, "same": 0, "attention": [], "per_family": {}, "lockstep_diff": [], "dropped": 0, "corrupting": 0,
                       "noninterfering": 0, "nested_raises": 0, "cyclic_skipped": 0}
                for r in parts:
                    for k in ("n", "same", "dropped", "corrupting", "noninterfering", "nested_raises", "cyclic_skipped"):
                        tot[k] += r[k]
                    tot["attention"] += r["attention"]
                    tot["lockstep_diff"] += r["lockstep_diff"]
                    for f, k in r["per_family"].items():
                        tot["per_family"][f] = tot["per_family"].get(f, 0) + k
                tot.update(config=dict(c, name=c["name"] + ("-asrt" if asrt else "")), asrt=a, tlc=stats, families=fams, vectors=len(sub))
                if tot["same"] > 0.9 * tot["n"] and not (tot["noninterfering"] and tot["corrupting"] and tot["nested_raises"]):
                    # vacuity control (on conforming code): acting hooks that interfere, that do not, and nested calls that are refused
                    raise T.MachineryError("%s: the re-entrant vectors do not exercise all classes: %s" % (c["name"], {k: tot[k] for k in ("noninterfering", "corrupting", "nested_raises")}))
                outcomes.append(tot)
    events, index = [], {}
    for oi, out in enumerate(outcomes):
        for ai, att in enumerate(out["attention"][:400]):
            o = att["obs"]
            eid = "r%d.%d" % (oi, ai)
            events.append({"id": eid, "k": o["k"], "n": o["n"], "v": o.get("v", "Nil"), "xs": list(o.get("xs", [])), "bad": False, "sure": True,
                           "plan": {"ak": o["plan"]["ak"], "am": o["plan"]["am"], "av": o["plan"]["av"], "akind": o["plan"].get("akind", "sp"), "ar": bool(o["plan"].get("ar"))},
                           "strict": not att["family"].endswith("light"), "asrt": bool(out["asrt"]),
                           "prepar": o["prepar"], "prech": o["prech"], "postpar": o["postpar"], "postch": o["postch"],
                           "exc": o["exc"], "src": int(o.get("src", 0)),
                           "log": [{"h": x["h"], "n": x["n"], "a": list(x["a"]), "r": bool(x["r"]), "par": x.get("par", {}), "ch": x.get("ch", {})} for x in o["log"]],
                           "nest": {"lo": o["nest"]["lo"], "hi": o["nest"]["hi"], "exc": o["nest"]["exc"],
                                    "par": o["nest"]["par"] or {}, "ch": o["nest"]["ch"] or {}}})
            index[eid] = att
    if events:
        verdicts, _ = judge.run_judge("TraceOpsRe", events, {"Nil": "Nil", "NonNode": "NonNode", "MaxStack": 12}, tag="judge-ops-re")
        for i, v in verdicts.items():
            index[i]["verdict"] = {"violated": sorted(v - {"explained"}), "explained": "explained" in v}
    _rememo[(tier, repo)] = outcomes
    return outcomes


_readvmemo = {}


def run_re_adversarial(tier, repo=None, procs=16):
    """C17 on calls with re-entrant hooks: the MC_OpsRe vectors on the adversarial class families, in lock-step with the plain class."""
    repo = repo or core.repo_path()
    if (tier, repo) in _readvmemo:
        return _readvmemo[(tier, repo)]
    adv = ["adv:%s:%s" % (b, base) for b in ("alwayseq", "nevereq", "falsy", "zerolen", "unhashable", "container", "ordering", "tripwire")
           for base in ("mixin", "light")]
    pairs = [(a.rsplit(":", 1)[1], a) for a in adv]
    c = RE[tier][0]
    stats = run_re_model(c, False)
    lines = T.read_lines(stats["lines_path"])
    k = 4 if tier == "quick" else 1
    sub = lines[(core.seed() + 1) % k::k]
    with core.pool(ops_replay.worker_init, (repo, False), procs) as p:
        size = max(50, min(1000, len(sub) // (procs * 4) + 1))
        parts = core.pmap(p, ops_replay.replay_chunk_re, [(ch, ["mixin", "light"] + adv, pairs) for ch in core.chunks(sub, size)])
    tot = {"n": sum(r["n"] for r in parts), "same": sum(r["same"] for r in parts), "lockstep_diff": [d for r in parts for d in r["lockstep_diff"]][:40],
           "config": dict(c, name=c["name"] + "-adv"), "tlc": stats, "asrt": False, "vectors": len(sub), "families": ["mixin", "light"] + adv}
    _readvmemo[(tier, repo)] = tot
    return tot


MAX_JUDGED = 3000


def _judge(outcomes):
    """Send every observation that differs from the as-built prediction to TLC."""
    events = []
    index = {}
    for oi, out in enumerate(outcomes):
        for ai, att in enumerate(out["attention"]):
            if att["why"] == "build":
                continue
            if len(events) >= MAX_JUDGED:
                break
            obs = dict(att["obs"])
            obs["strict"] = not att["family"].endswith("light")
            obs["asrt"] = out["asrt"]
            obs["id"] = "%d.%d" % (oi, ai)
            events.append(judge.normalise(obs, obs["id"]))
            index[obs["id"]] = att
    verdicts, stats = judge.judge_ops(events, tag="judge-ops")
    for i, v in verdicts.items():
        index[i]["verdict"] = {"violated": sorted(v["violated"]), "explained": v["explained"]}
    for out in outcomes:
        out["judge"] = stats and {k: stats.get(k) for k in ("generated", "wall_s")}


def classify(out, prop):
    """From one outcome: (violations, known_hits, drift) for property `prop` in {C01, C02, C03, C16}."""
    viols, drift = [], 0
    known = {}
    for att in out["attention"]:
        pred, obs = att["pred"], att["obs"]
        if att["why"] == "build":
            # the pre-state could not even be built with fault-free attaches: attach itself is broken (C02; C01 if inconsistent)
            if prop in ("C02", "C01"):
                viols.append(record(prop, out, att, "building the pre-state through n.parent = p failed: built %s" % (obs["built"],)))
            continue
        v = att.get("verdict")
        if v is None:
            continue
        if prop in v["violated"]:
            c03_same = pred["exc"] == obs["exc"] and pred["postpar"] == obs["postpar"] and pred["postch"] == obs["postch"]
            if prop == "C03" and not att["flags"]["c03"] and c03_same and pred["marks"]:
                # same refused/vetoed call, same outcome and same resulting forest as the pinned, listed deviation
                key = "+".join(pred["marks"])
                k = known.setdefault(key, {"count": 0, "witness": None})
                k["count"] += 1
                k["witness"] = k["witness"] or {"family": att["family"], "pred": ops_replay.strip_snap(pred)}
            else:
                viols.append(record(prop, out, att, "TLC judged the observation: violated %s; explained by the as-built model: %s" % (
                    v["violated"], v["explained"])))
        elif not v["violated"]:
            drift += 1
    for key, k in out["known"].items():
        if prop == "C03":
            t = known.setdefault(key, {"count": 0, "witness": None})
            t["count"] += k["count"]
            t["witness"] = t["witness"] or k["witness"]
    return viols, known, drift


def record(prop, out, att, why):
    return {"property": prop, "module": "ops", "config": out["config"]["name"], "family": att["family"], "asrt": out["asrt"],
            "why": why, "pred": att["pred"], "obs": att["obs"], "verdict": att.get("verdict")}


_amemo = {}


def run_adversarial(tier, repo=None):
    """C17: the same vectors on the adversarial class families, compared in lock-step with the plain class on the same base."""
    repo = repo or core.repo_path()
    key = (tier, repo)
    if key in _amemo:
        return _amemo[key]
    rnd = random.Random(core.seed() + 17)
    adv = ["adv:%s:%s" % (b, base) for b in ("alwayseq", "nevereq", "falsy", "zerolen", "unhashable", "container", "ordering", "tripwire")
           for base in ("mixin", "light")]
    pairs = [(a.rsplit(":", 1)[1], a) for a in adv]
    cross = [("adv:%s:mixin" % b, "adv:%s:light" % b) for b in ("alwayseq", "nevereq", "falsy")]     # C18 on classes with special methods
    pairs += cross
    outcomes = []
    for c in configs(tier):
        if c["name"] not in ("ops-n4", "ops-n3x"):
            continue
        stats = run_model(c)
        lines = T.read_lines(stats["lines_path"])
        k = 1 if c["name"] == "ops-n3x" or tier == "thorough" else 6
        sub = lines[rnd.randrange(k)::k]
        tot = _replay(sub, ["mixin", "light"] + adv, False, pairs, repo)
        tot.update(config=c, asrt=False, tlc=stats, families=["mixin", "light"] + adv, vectors=len(sub))
        tot["cross_diff"] = [d for d in tot["lockstep_diff"] if tuple(d["pair"]) in cross]
        tot["lockstep_diff"] = [d for d in tot["lockstep_diff"] if tuple(d["pair"]) not in cross]
        outcomes.append(tot)
    _amemo[key] = outcomes
    return outcomes


def run_small(tier):
    """The small-step specification: invariants in every intermediate configuration (no vectors)."""
    cs = [dict(name="small-n3", N=3, MaxLen=3, FaultMode=2, WithCtor=True)]
    if tier == "thorough":
        cs.append(dict(name="small-n4", N=4, MaxLen=2, FaultMode=2, WithCtor=False))
    out = []
    for c in cs:
        for asrt in (True, False):
            cfg = T.cfg_text({"Node": T.mv_set("n", c["N"]), "Nil": T.Raw("Nil"), "NonNode": T.Raw("NonNode"), "MaxStack": 12,
                              "MaxLen": c["MaxLen"], "FaultMode": c["FaultMode"], "Strict": True, "Asrt": asrt, "WithCtor": c["WithCtor"]},
                             view="View", symmetry="Sym", deadlock=False,
                             invariants=("Inv_C01", "Inv_Stack", "Inv_NoAssertion", "Inv_Outcome", "Inv_HookViews"))
            stats = T.run_tlc("MC_OpsSmall", cfg, tag=c["name"] + ("-asrt" if asrt else ""), timeout=7200, keep_prefixes=("\x00",))
            T.require_ok(stats)
            out.append(stats)
    return out


_qmemo = {}


def run_quiet(tier, repo=None, procs=16):
    """A pass without harness reads during the calls (stale derived data inside the library), judged without hook logs."""
    repo = repo or core.repo_path()
    if (tier, repo) in _qmemo:
        return _qmemo[(tier, repo)]
    c = configs(tier)[0]
    stats = run_model(c)
    lines = T.read_lines(stats["lines_path"])
    k = 3 if tier == "quick" else 1
    sub = lines[core.seed() % k::k]
    with core.pool(ops_replay.worker_init, (repo, False), procs) as p:
        size = max(50, min(2000, len(sub) // (procs * 4) + 1))
        parts = core.pmap(p, ops_replay.replay_chunk_quiet, [(ch, ["mixin", "light", "node"]) for ch in core.chunks(sub, size)])
    tot = {"n": sum(r["n"] for r in parts), "same": sum(r["same"] for r in parts), "attention": [a for r in parts for a in r["attention"]],
           "config": c, "tlc": stats, "asrt": False}
    events, index = [], {}
    for ai, att in enumerate(tot["attention"][:2000]):
        obs = dict(att["obs"])
        obs["strict"] = not att["family"].endswith("light")
        obs["asrt"] = False
        obs["id"] = "q%d" % ai
        events.append(judge.normalise(obs, obs["id"], haslog=False))
        index[obs["id"]] = att
    verdicts, _ = judge.judge_ops(events, tag="judge-ops-quiet")
    for i, v in verdicts.items():
        index[i]["verdict"] = {"violated": sorted(v["violated"]), "explained": v["explained"]}
    _qmemo[(tier, repo)] = tot
    return tot


_wmemo = {}


def run_wide_quiet(tier, repo=None, procs=16):
    """Hundreds of children below one node (MC_OpsWide): expected outcome and forest from the property layer alone, replayed
    without hook logs under both assertion settings; differing observations judged by TLC without logs."""
    repo = repo or core.repo_path()
    if (tier, repo) in _wmemo:
        return _wmemo[(tier, repo)]
    c = dict(name="ops-wide260" if tier == "quick" else "ops-wide300", N=266 if tier == "quick" else 306, Wide=260 if tier == "quick" else 300, MaxLen=260)
    cfg = T.cfg_text({"Node": T.mv_set("n", c["N"]), "Nil": T.Raw("Nil"), "NonNode": T.Raw("NonNode"), "MaxStack": 12, "Wide": c["Wide"]},
                     view="View", properties=("Thm_Wide",), action_constraints=("Emit",), deadlock=False)
    stats = T.run_vectors("MC_OpsWide", cfg, c["name"], lambda st: st["generated"] - 1, workers=1)
    lines = T.read_lines(stats["lines_path"])
    tot = {"n": 0, "same": 0, "attention": [], "config": c, "tlc": stats, "asrt": False}
    for asrt in (False, True):
        with core.pool(ops_replay.worker_init, (repo, asrt, 3000), min(procs, len(lines))) as p:
            parts = core.pmap(p, ops_replay.replay_chunk_quiet, [([ln], ["mixin", "light", "node", "anynode"]) for ln in lines])
        tot["n"] += sum(r["n"] for r in parts)
        tot["same"] += sum(r["same"] for r in parts)
        for r in parts:
            for a in r["attention"]:
                a["asrt"] = asrt
                tot["attention"].append(a)
    events, index = [], {}
    for ai, att in enumerate(tot["attention"][:60]):
        obs = dict(att["obs"])
        obs["strict"] = not att["family"].endswith("light")
        obs["asrt"] = att["asrt"]
        obs["id"] = "w%d" % ai
        obs["log"] = []         # (no snapshots were taken; a thousand stand-in entries of 266 nodes each would only bloat the trace)
        events.append(judge.normalise(obs, obs["id"], haslog=False))
        index[obs["id"]] = att
    if events:
        verdicts, _ = judge.judge_ops(events, tag="judge-ops-wide")
        for i, v in verdicts.items():
            index[i]["verdict"] = {"violated": sorted(v["violated"]), "explained": v["explained"]}
    _wmemo[(tier, repo)] = tot
    return tot

"""Module M4 (RenderTree): TLC run, replay, judging.  Serves C09."""
from . import core, judge, render_replay
from . import tlc as T

def big(name, lo, hi, instances, per):
    return dict(name=name, MaxN=3, MaxHide=1, big=dict(BigMin=lo, BigMax=hi, Instances=instances, PerShape=per))


CONFIGS = {"quick": [dict(name="render-t6", MaxN=6, MaxHide=2), big("big-render-60", 10, 60, 48, 12), big("big-render-200", 100, 200, 6, 6)],
           "thorough": [dict(name="render-t8", MaxN=8, MaxHide=2), big("big-render-80", 10, 80, 400, 20), big("big-render-300", 100, 300, 24, 10)]}


def tlc_cfg(c):
    if c.get("big"):
        consts = {"Nil": 0, "MaxN": c["MaxN"], "MaxHide": c["MaxHide"]}
        consts.update(c["big"])
        return T.cfg_text(consts, init="BigInit", next_="BigNext", view="View", properties=("Thm_Rows",), action_constraints=("Emit",), deadlock=False)
    return T.cfg_text({"Nil": 0, "MaxN": c["MaxN"], "MaxHide": c["MaxHide"]}, view="View",
                      properties=("Thm_Rows", "Lem_Decode"), action_constraints=("Emit",), deadlock=False)


def run_model(c, coverage=False):
    if c.get("big"):
        return T.run_vectors("MC_RenderBig", tlc_cfg(c), c["name"], lambda st: st["distinct"] * c["big"]["PerShape"], workers=1,
                             extra=("-seed", str(17 + core.seed())))
    return T.run_vectors("MC_Render", tlc_cfg(c), c["name"], lambda st: st["generated"] - st["distinct"])


def run(tier, repo=None, procs=16):
    repo = repo or core.repo_path()
    outcomes = []
    for c in CONFIGS[tier]:
        stats = run_model(c)
        lines = T.read_lines(stats["lines_path"])
        size = max(50, min(2000, len(lines) // (procs * 4) + 1))
        jobs = [(lines[i:i + size], i) for i in range(0, len(lines), size)]
        with core.pool(render_replay.worker_init, (repo,), procs) as p:
            parts = core.pmap(p, render_replay.replay_chunk, jobs)
        tot = {"n": 0, "vectors": 0, "attention": [], "dropped": 0, "reprs": 0}
        for r in parts:
            for k in ("n", "vectors", "dropped", "reprs"):
                tot[k] += r[k]
            tot["attention"] += r["attention"]
        tot.update(config=c, tlc=stats)
        outcomes.append(tot)
        sub = [j for j in jobs][core.seed() % 4::4]
        with core.pool(render_replay.worker_init, (repo, True), procs) as p:
            parts = core.pmap(p, render_replay.replay_chunk, sub)
        tot2 = {"n": 0, "vectors": 0, "attention": [], "dropped": 0, "reprs": 0}
        for r in parts:
            for k in ("n", "vectors", "dropped", "reprs"):
                tot2[k] += r[k]
            tot2["attention"] += r["attention"]
        tot2.update(config=dict(c, assertions=True), tlc=stats)
        outcomes.append(tot2)
    # judge
    events, index = [], {}
    for oi, out in enumerate(outcomes):
        for ai, att in enumerate(out["attention"]):
            for bi, b in enumerate(att["bad"]):
                if "rows" not in b:
                    continue
                q = att["query"]
                ident = "%d.%d.%d" % (oi, ai, bi)
                events.append({"id": ident, "par": att["par"], "ch": att["ch"], "s": q["s"], "ci": q["ci"], "ml": q["ml"],
                               "nl": q["nl"], "rows": b["rows"], "text": b["text"], "hastext": b["why"] not in ("by_attr(missing attribute)",)})
                index[ident] = b
    if events:
        verdicts, _ = judge.run_judge("TraceRender", events[:3000], {"Nil": "Nil"}, tag="judge-render")
        for i, v in verdicts.items():
            index[i]["verdict"] = sorted(v)
    return outcomes


def classify(outcomes, res):
    seen = set()
    for out in outcomes:
        if out["tlc"]["key"] not in seen:
            seen.add(out["tlc"]["key"])
            res.add_tlc(out["tlc"])
        res.replayed += out["n"] + out["reprs"]
        res.extra["render_vectors"] = res.extra.get("render_vectors", 0) + out["vectors"]
        res.extra["repr_checks"] = res.extra.get("repr_checks", 0) + out["reprs"]
        for att in out["attention"]:
            for b in att["bad"]:
                if core.interpreter_limit(b.get("raised"), att["par"]):
                    res.extra["skipped_at_the_interpreters_recursion_limit"] = res.extra.get("skipped_at_the_interpreters_recursion_limit", 0) + 1
                    continue
                if "raised" in b or b.get("repr") or b.get("why") == "by_attr(missing attribute)" or "C09" in b.get("verdict", []):
                    res.violation({"property": "C09", "module": "render", "config": out["config"]["name"],
                                   "why": "RenderTree output differs from the definition: %s" % {k: v for k, v in b.items() if k not in ("rows", "text")},
                                   "par": att["par"], "ch": att["ch"], "query": att["query"], "observed": b})
                else:
                    res.drift += 1
    res.extra["configs"] = [o["config"] for o in outcomes]


ADV = ("adv:alwayseq:mixin", "adv:nevereq:light", "adv:falsy:mixin", "adv:zerolen:light", "adv:tripwire:mixin", "adv:unhashable:mixin", "adv:container:light")


def run_adversarial(tier, repo=None, procs=16):
    repo = repo or core.repo_path()
    c = dict(name="render-t5", MaxN=5, MaxHide=2) if tier == "quick" else CONFIGS["quick"][0]
    stats = run_model(c)
    lines = T.read_lines(stats["lines_path"])
    step = 3 if tier == "quick" else 1
    lines = lines[core.seed() % step::step]
    size = max(50, min(1000, len(lines) // (procs * 4) + 1))
    jobs = [(lines[i:i + size], i, ADV) for i in range(0, len(lines), size)]
    with core.pool(render_replay.worker_init, (repo,), procs) as p:
        parts = core.pmap(p, render_replay.replay_chunk_adv, jobs)
    return {"n": sum(r["n"] for r in parts), "attention": [a for r in parts for a in r["attention"]], "tlc": stats, "config": c, "vectors": len(lines)}

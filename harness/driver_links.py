"""Code -> spec for link nodes and copies (C20, C19): seeded histories on one live universe of ordinary nodes and links
(links to links included): attribute writes through any node, link constructors with keywords, structural calls, and
copies (pickle / deepcopy) of whatever the history has built, each copy then extended below one of its leaves.
Every step is one event: projection before, action, projection after -> judged by TLC (TraceAttrs / TraceClone)."""
import copy
import pickle
import random
import sys

from . import attrs_replay, clone_replay, core

VALUES = ("1", "2", "x")
COPY_OFFSET = 100


def worker_init(repo):
    attrs_replay.worker_init(repo)
    sys.setrecursionlimit(max(sys.getrecursionlimit(), 1000))


@core.safe_worker
def history(args):
    try:
        return core._deadline(lambda: _history(args), 300)
    except core.Hang:
        return {"attr": [], "copy": [], "hung": True, "seed": args[0]}


def _attr_proj():
    p = attrs_replay.project()
    return {k: p[k] for k in ("alive", "tgt", "par", "ch", "reads")}


def _history(args):
    from . import nodes as N

    seed, nplain, steps = args
    rnd = random.Random(seed)
    N.new_universe()
    N.Ctx.log = None
    hid = "links-%d" % seed
    count = [0]

    def fresh():
        count[0] += 1
        return "n%d" % count[0]

    # ordinary nodes: Node / AnyNode based, some with a read-only property `_bar`
    # (one base class per history: a Node below a nameless AnyNode cannot even be printed in an error message)
    # (a __slots__ class on the other mixin family can be a target, too -- its nodes then stay out of the links' trees)
    classes = rnd.choice(((N.HNode, N.HNode, N.HNodeRO), (N.HAny, N.HAny, N.HAnyRO), (N.HLightT,)))
    light = set()
    for _ in range(nplain):
        cls = rnd.choice(classes)
        lbl = fresh()
        o = cls(lbl) if cls in (N.HNode, N.HNodeRO) else cls()
        N.register(o, lbl)
        if cls is N.HLightT:
            light.add(lbl)
        for k in attrs_replay.KEYS:
            if rnd.random() < 0.4 and not (k == "_bar" and cls in (N.HNodeRO, N.HAnyRO)):
                setattr(o, k, rnd.choice(VALUES))
    attr_events, copy_events = [], []
    for step in range(steps):
        objs = N.Ctx.objs
        alive = sorted(objs, key=lambda l: int(l[1:]))
        r = rnd.random()
        ident = "%s.%d" % (hid, step)
        struct = [l for l in alive if l not in light]       # nodes that can be related structurally
        if r < 0.12 and len(alive) < 9:
            act, n = "newlink", fresh()
            kws = [[k, rnd.choice(VALUES)] for k in rnd.sample(attrs_replay.KEYS, rnd.choice((0, 0, 1, 2)))]
            a1, a2 = [rnd.choice(alive), rnd.choice(struct + ["Nil", "Nil"])], kws
        elif r < 0.50:
            act, n = "setattr", rnd.choice(alive)
            a1, a2 = [rnd.choice(attrs_replay.KEYS), rnd.choice(VALUES)], []
        elif r < 0.68 and struct:
            act, n = "sp", rnd.choice(struct)
            a1, a2 = [rnd.choice(struct + ["Nil"])], []
        elif r < 0.80 and struct:
            act, n = "sc", rnd.choice(struct)
            a1, a2 = rnd.sample(struct, rnd.randint(0, min(3, len(struct)))), []
        elif light:
            continue        # (copies of a universe with two mixin families are not part of this driver)
        else:
            ev = _copy_event(rnd, ident)
            if ev:
                copy_events.append(ev)
            continue
        pre = _attr_proj()
        exc = "Nil"
        try:
            if act == "newlink":
                o = N.HSym.__new__(N.HSym)
                N.register(o, n)
                N.HSym.__init__(o, objs[a1[0]], parent=None if a1[1] == "Nil" else objs[a1[1]], **{k: v for k, v in a2})
            elif act == "setattr":
                setattr(objs[n], a1[0], a1[1])
            elif act == "sp":
                objs[n].parent = None if a1[0] == "Nil" else objs[a1[0]]
            else:
                objs[n].children = [objs[x] for x in a1]
        except Exception as e:  # noqa: the outcome is data
            exc = "AttributeError" if isinstance(e, AttributeError) else N.exc_token(e)
            if act == "newlink":
                dead = N.Ctx.objs.pop(n, None)
                N.Ctx.labels.pop(id(dead), None)
                GRAVEYARD.append(dead)      # (kept alive so that its id is not reused by another object of this history)
        post = _attr_proj()
        attr_events.append({"id": ident, "act": act, "n": n, "a1": a1, "a2": a2, "pre": pre, "post": post, "exc": exc})
        par, ch = post["par"], post["ch"]
        if any(par[c] != p for p in ch for c in ch[p]) or any(p != "Nil" and ch[p].count(c) != 1 for c, p in par.items()):
            break       # the forest is corrupt: nothing after this is meaningful
    return {"attr": attr_events, "copy": copy_events, "seed": seed}


def _copy_event(rnd, ident):
    """Copy a random node of the live universe (with everything reachable from it), extend the copy below one of its leaves,
    observe, and forget the copy again."""
    from . import nodes as N

    objs = N.Ctx.objs
    alive = sorted(objs, key=lambda l: int(l[1:]))
    n = rnd.choice(alive)
    how = rnd.choice(("deepcopy", "pickle0", "pickle2", "pickle4", "pickle5"))
    extra = N.register(N.HMixin(), clone_replay.EXTRA)
    keep = []
    try:
        pre = clone_replay.project()
        orig = objs[n]
        ev = {"id": ident, "pre": pre, "n": n, "how": how, "mut": "attach", "extra": clone_replay.EXTRA}
        try:
            cp = copy.deepcopy(orig) if how == "deepcopy" else pickle.loads(pickle.dumps(orig, int(how[6:])))
        except Exception as e:  # noqa
            ev["raised"] = "%s: %s" % (type(e).__name__, str(e)[:200])
            return ev
        keep.append(cp)
        ev["bij"] = clone_replay.register_copy(orig, cp, COPY_OFFSET)
        ev["result"] = N.label(cp)
        ev["post"] = clone_replay.project()
        root = orig
        while root.parent is not None:
            root = root.parent
        ev["root"] = N.label(root)
        leaves = sorted(l for l in ev["post"]["par"] if l not in pre["par"] and not ev["post"]["ch"][l])
        if not leaves:
            ev["raised"] = "the copy has no leaf"
            return ev
        ev["leaf"] = rnd.choice(leaves)
        try:
            extra.parent = N.Ctx.objs[ev["leaf"]]
        except Exception as e:  # noqa
            ev["raised"] = "attaching below a leaf of the copy: %s: %s" % (type(e).__name__, str(e)[:200])
            return ev
        ev["after"] = clone_replay.project()
        return ev
    finally:
        # forget the copy and the extra node (the objects stay referenced, so that their ids are not reused)
        for lbl in [l for l in N.Ctx.objs if l == clone_replay.EXTRA or l.startswith("x") or int(l[1:]) > COPY_OFFSET]:
            o = N.Ctx.objs.pop(lbl)
            N.Ctx.labels.pop(id(o), None)
            GRAVEYARD.append(o)


GRAVEYARD = []

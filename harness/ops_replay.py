"""Spec -> code for module NodeOps (M1): replay TLC's big-step transitions against the real mutators."""
import sys

from . import core


def invert(ch):
    """parent function of a well-formed children function (transport of TLC's compact snapshots)."""
    par = {n: "Nil" for n in ch}
    for p, kids in ch.items():
        for k in kids:
            par[k] = p
    return par


def expand(o):
    """Vector as emitted by MC_Ops!Emit -> full observation record."""
    o = dict(o)
    log = []
    for e in o["log"]:
        e = dict(e)
        if "cs" in e:       # (MC_OpsRe emits both functions: its snapshots can be corrupt)
            cs = e.pop("cs")
            e["ch"] = cs
            e["par"] = invert(cs)
        log.append(e)
    o["log"] = log
    for k in ("ks", "kinds", "nodes"):
        o["plan"][k] = sorted(o["plan"][k])
    o["marks"] = sorted(o.get("marks", []))
    o["pcs"] = sorted(o.get("pcs", []))
    return o


def as_iterable(items, form):
    """The children argument in different iterable forms (the setter accepts any iterable)."""
    form %= 6
    if form == 5:
        # a lazy iterable whose content depends on the tree at the time it is consumed: it yields the intended nodes only
        # while they still have the parent they had when the call was made (the setter must consume it before it changes anything)
        was = [(x, getattr(x, "parent", None)) for x in items]
        return (x for x, p in was if getattr(x, "parent", None) is p)
    if form == 0:
        return list(items)
    if form == 1:
        return tuple(items)
    if form == 2:
        return (x for x in items)
    if form == 3:
        return iter(list(items))
    return reversed(list(reversed(items)))


def perform(o, family, form=0, quiet=False, reuse=False):
    """Run the call of observation/vector `o` on fresh objects of `family`; return the observation of the real code.

    quiet: the harness reads nothing between building the pre-state and the end of the call (no snapshots inside hooks, no
    verification read of the built state) -- derived data cached by the library across the steps of one call, or since an
    earlier read, is then not refreshed by the harness's own reads."""
    from . import nodes as N

    k = o["k"]
    skip = (o["n"],) if k == "ct" else ()
    steps = []
    try:
        if not reuse:       # reuse: the call continues a history on the live objects of the previous call
            steps = N.build_forest(family, o["prepar"], o["prech"], skip=skip)
    except Exception as e:  # noqa: building through the public API failed -- an observation, too
        N.Ctx.log = None
        return {"build_failed": True, "steps": [], "built": "raised %s: %s" % (type(e).__name__, str(e)[:200]), "exc": "Other:" + type(e).__name__}
    N.Ctx.snap_hooks = not quiet
    if quiet:
        # one read of every node's children long before the call (what a cache would remember) ...
        for obj in N.Ctx.objs.values():
            obj.children
        built = (dict(o["prepar"]), {k: list(v) for k, v in o["prech"].items()})
    else:
        built = N.snapshot()
    if k == "ct":
        built[0][o["n"]] = "Nil"
        built[1][o["n"]] = []
    if built[0] != o["prepar"] or built[1] != o["prech"]:
        return {"build_failed": True, "steps": steps, "built": built}
    objs = N.Ctx.objs

    def arg(x):
        if x == "Nil":
            return None
        if x == "NonNode":
            return N.NONNODE
        return objs[x]

    N.reset(o["plan"])
    exc = "Nil"
    src = 0
    try:
        if k == "sp":
            objs[o["n"]].parent = arg(o["v"])
        elif k == "dc":
            del objs[o["n"]].children
        elif k == "sc":
            if o["bad"]:
                objs[o["n"]].children = 5
            else:
                objs[o["n"]].children = as_iterable([arg(x) for x in o["xs"]], form)
        elif k == "ct":
            N.construct(family, o["n"], parent=arg(o["v"]), children=as_iterable([arg(x) for x in o["xs"]], form if form % 6 < 2 else 0) or None)
    except BaseException as e:  # noqa: the outcome is data
        if isinstance(e, (KeyboardInterrupt, SystemExit, core.Hang)):
            raise
        exc = N.exc_token(e)
        src = getattr(e, "src", 0) if exc == "HookFault" else 0
    log = N.Ctx.log
    N.Ctx.log = None
    N.Ctx.snap_hooks = True
    postpar, postch = N.snapshot()
    if quiet:
        for e in log:       # no snapshots were taken: the judge gets the final state as a stand-in (haslog = False there)
            e["par"], e["ch"] = postpar, postch
    if k == "ct" and o["n"] not in postpar:
        postpar[o["n"]] = "Nil"
        postch[o["n"]] = []
    obs = dict(o)
    obs.update(exc=exc, src=src, log=log, postpar=postpar, postch=postch, iterable_form=form % 6)
    if "nest" in o:
        obs["nest"] = N.Ctx.nest or dict(NO_NEST)
    obs.pop("marks", None)
    obs.pop("pcs", None)
    return obs


OBS_FIELDS = ("exc", "src", "postpar", "postch", "log")
NO_NEST = {"lo": 0, "hi": 0, "exc": "Nil", "par": [], "ch": []}


def same(pred, obs):
    if pred["exc"] == "RecursionError":
        # where CPython's recursion limit strikes is not part of the model: only the outcome is compared
        return obs["exc"] == "RecursionError"
    return all(pred[f] == obs[f] for f in OBS_FIELDS) and pred.get("nest") == obs.get("nest")


def worker_init(repo, assertions, reclimit=220):
    import os

    os.environ["ANYTREE_ASSERTIONS"] = "1" if assertions else "0"
    os.environ.setdefault("PYTHONHASHSEED", "0")
    sys.path.insert(0, repo)
    import anytree  # noqa
    import anytree.config

    assert anytree.config.ASSERTIONS == bool(assertions)
    assert os.path.abspath(anytree.__file__).startswith(os.path.abspath(repo)), anytree.__file__
    from . import nodes  # noqa

    sys.setrecursionlimit(reclimit)


@core.safe_worker
def replay_chunk(args):
    """args = (lines, families) -> list of result dicts for vectors that need attention, plus counters."""
    import json
    from . import nodes as N

    lines, families, lockstep = args
    out = {"n": 0, "same": 0, "known": {}, "attention": [], "per_family": {}, "recursion": 0, "lockstep_diff": [],
           "dropped": 0}
    strata = {}

    def attention(item):
        # keep memory bounded when (with a mutant) most vectors differ: a few per (family, call, plan, outcome) class and chunk
        p = item["pred"]
        key = (item["family"], item["why"], p["k"], p["plan"]["mode"], p["exc"], item["obs"].get("exc"))
        strata[key] = strata.get(key, 0) + 1
        if strata[key] <= 4:
            out["attention"].append(item)
        else:
            out["dropped"] += 1

    import zlib

    pcs = set()
    out["pcs"] = pcs
    for line in lines:
        vec = json.loads(json.loads(line))
        pred = expand(vec["o"])
        pcs.update(pred["pcs"])
        form0 = zlib.crc32(line.encode()) % 6
        flags = {k: vec[k] for k in ("c01", "c02", "c03", "c03a", "c16")}
        observed = {}
        nonnode = pred["v"] == "NonNode" or "NonNode" in pred["xs"]
        for fam in families:
            if nonnode and not N.FAMILIES[fam]["strict"]:
                continue    # non-node arguments are outside the properties for LightNodeMixin classes
            out["n"] += 1
            out["per_family"][fam] = out["per_family"].get(fam, 0) + 1
            try:
                obs = core.call_with_deadline(lambda: perform(pred, fam, form0))
            except core.Hang:
                obs = dict(pred, exc="Other:Hang", src=0, log=[], build_failed=False)
            observed[fam] = obs
            if obs.get("build_failed"):
                attention({"family": fam, "pred": pred, "obs": obs, "flags": flags, "why": "build"})
                continue
            if same(pred, obs):
                out["same"] += 1
                if pred["exc"] == "RecursionError":
                    out["recursion"] += 1
                if not flags["c03"]:
                    # the model itself violates C03 here and the code behaves exactly like the model:
                    # a named deviation (known finding) -- identified by its marks
                    key = "+".join(pred["marks"]) or "unmarked"
                    kf = out["known"].setdefault(key, {"count": 0, "witness": None})
                    kf["count"] += 1
                    if kf["witness"] is None:
                        kf["witness"] = {"family": fam, "pred": strip_snap(pred)}
            else:
                attention({"family": fam, "pred": pred, "obs": obs, "flags": flags, "why": "differs"})
        for pair in (lockstep or ()):
            if not all(f in observed for f in pair):
                continue
            a, b = observed[pair[0]], observed[pair[1]]
            if not a.get("build_failed") and not b.get("build_failed") and a["exc"] != "RecursionError":
                if any(a[f] != b[f] for f in OBS_FIELDS) and len(out["lockstep_diff"]) < 8:
                    out["lockstep_diff"].append({"pred": pred, "pair": list(pair), pair[0]: a, pair[1]: b})
            elif a.get("build_failed") != b.get("build_failed") and len(out["lockstep_diff"]) < 8:
                out["lockstep_diff"].append({"pred": pred, "pair": list(pair), pair[0]: a, pair[1]: b})
    return out


@core.safe_worker
def replay_chunk_re(args):
    """Vectors of MC_OpsRe (re-entrant hooks): the hook invocation plan.ak itself calls `am.parent = av`."""
    import json
    import zlib

    lines, families, lockstep = args
    out = {"n": 0, "same": 0, "attention": [], "per_family": {}, "lockstep_diff": [], "dropped": 0, "corrupting": 0, "noninterfering": 0,
           "nested_raises": 0, "cyclic_skipped": 0}
    strata = {}
    for line in lines:
        vec = json.loads(json.loads(line))
        if vec["cyc"]:
            out["cyclic_skipped"] += 1      # (the library does not terminate on a cyclic forest)
            continue
        pred = expand(vec["o"])
        form0 = zlib.crc32(line.encode()) % 6
        flags = {"re": sorted(vec["re"]), "ni": vec["ni"], "bad": vec["bad"]}
        observed = {}
        for fam in families:
            out["n"] += 1
            out["per_family"][fam] = out["per_family"].get(fam, 0) + 1
            try:
                obs = core.call_with_deadline(lambda: perform(pred, fam, form0))
            except core.Hang:
                obs = dict(pred, exc="Other:Hang", src=0, log=[], build_failed=False, nest=dict(NO_NEST))
            observed[fam] = obs
            if obs.get("build_failed"):
                continue        # (building pre-states is the business of the plain vectors)
            if same(pred, obs):
                out["same"] += 1
                out["corrupting"] += bool(vec["bad"])
                out["noninterfering"] += bool(vec["ni"])
                out["nested_raises"] += pred["nest"]["exc"] != "Nil"
            else:
                key = (fam, pred["k"], pred["exc"], obs.get("exc"), vec["ni"], pred["log"][pred["plan"]["ak"] - 1]["h"])
                strata[key] = strata.get(key, 0) + 1
                if strata[key] <= 3:
                    out["attention"].append({"family": fam, "pred": pred, "obs": obs, "flags": flags, "why": "differs"})
                else:
                    out["dropped"] += 1
        for pair in (lockstep or ()):
            if not all(f in observed for f in pair):
                continue
            a, b = observed[pair[0]], observed[pair[1]]
            if a.get("build_failed") or b.get("build_failed") or a["exc"] == "RecursionError":
                continue
            if (any(a[f] != b[f] for f in OBS_FIELDS) or a.get("nest") != b.get("nest")) and len(out["lockstep_diff"]) < 8:
                out["lockstep_diff"].append({"pred": pred, "pair": list(pair), pair[0]: a, pair[1]: b})
    return out


def strip_snap(o):
    o = dict(o)
    o["log"] = [{k: v for k, v in e.items() if k not in ("par", "ch")} for e in o["log"]]
    return o


@core.safe_worker
def replay_chunk_quiet(args):
    """Vectors replayed without any harness read during the call; only outcome and final forest are compared."""
    import json
    import zlib

    lines, families = args
    out = {"n": 0, "same": 0, "attention": [], "dropped": 0}
    for line in lines:
        vec = json.loads(json.loads(line))
        pred = expand(vec["o"])
        if pred["exc"] == "RecursionError" or pred["v"] == "NonNode" or "NonNode" in pred["xs"]:
            continue
        form0 = zlib.crc32(line.encode()) % 6
        for fam in families:
            out["n"] += 1
            try:
                obs = core.call_with_deadline(lambda: perform(pred, fam, form0, quiet=True))
            except core.Hang:
                obs = dict(pred, exc="Other:Hang", src=0, log=[])
            if obs.get("build_failed"):
                out["dropped"] += 1
            elif obs["exc"] == pred["exc"] and obs["postpar"] == pred["postpar"] and obs["postch"] == pred["postch"]:
                out["same"] += 1
            elif len(out["attention"]) < 6:
                out["attention"].append({"family": fam, "pred": pred, "obs": obs, "flags": {k: vec[k] for k in ("c01", "c02", "c03", "c03a", "c16")}, "why": "quiet"})
            else:
                out["dropped"] += 1
    return out


@core.safe_worker
def replay_chains(args):
    """Histories generated by tlc -simulate (MC_OpsSim): consecutive lines whose pre-state is the previous line's post-state
    are replayed on the *same live objects*; the forest is rebuilt only where a chain starts or the code left the model."""
    import json
    import zlib
    from . import nodes as N

    lines, families = args
    out = {"n": 0, "same": 0, "known": {}, "attention": [], "per_family": {}, "recursion": 0, "lockstep_diff": [], "dropped": 0,
           "pcs": set(), "continued": 0, "longest_chain": 0}
    vecs = [json.loads(json.loads(line)) for line in lines]
    for fam in families:
        tracked, chain = None, 0
        for line, vec in zip(lines, vecs):
            pred = expand(vec["o"])
            out["pcs"].update(pred["pcs"])
            flags = {k: vec[k] for k in ("c01", "c02", "c03", "c03a", "c16")}
            reuse = tracked is not None and tracked == (pred["prepar"], pred["prech"])
            chain = chain + 1 if reuse else 1
            out["longest_chain"] = max(out["longest_chain"], chain)
            out["continued"] += reuse
            out["n"] += 1
            out["per_family"][fam] = out["per_family"].get(fam, 0) + 1
            try:
                obs = core.call_with_deadline(lambda: perform(pred, fam, zlib.crc32(line.encode()) % 6, reuse=reuse))
            except core.Hang:
                obs = dict(pred, exc="Other:Hang", src=0, log=[], build_failed=False)
            tracked = None
            obs["chain_position"] = chain
            if obs.get("build_failed"):
                if len(out["attention"]) < 40:
                    out["attention"].append({"family": fam, "pred": pred, "obs": obs, "flags": flags, "why": "build"})
                continue
            if same(pred, obs):
                out["same"] += 1
                if pred["exc"] == "RecursionError":
                    out["recursion"] += 1       # (where the recursion limit strikes is not modelled: the next call starts afresh)
                else:
                    tracked = (pred["postpar"], pred["postch"])
                if not flags["c03"]:
                    key = "+".join(pred["marks"]) or "unmarked"
                    kf = out["known"].setdefault(key, {"count": 0, "witness": None})
                    kf["count"] += 1
                    if kf["witness"] is None:
                        kf["witness"] = {"family": fam, "pred": strip_snap(pred)}
            elif len(out["attention"]) < 40:
                out["attention"].append({"family": fam, "pred": pred, "obs": obs, "flags": flags, "why": "differs"})
            else:
                out["dropped"] += 1
    out["pcs"] = sorted(out["pcs"])
    return out

"""Confirm a seeded change produced by a sub-agent and run the checks against it.

usage: /venv/bin/python -m harness.seedtool <worktree> <mdir> <seed-id> [--checks C01,C02,..] [--tier quick]
  <worktree>  scratch git worktree of /repo (e.g. /tmp/wt/C06)
  <mdir>      directory with patch.diff, demo.py, meta.json (e.g. /tmp/wt/C06/out/m1)
  <seed-id>   name under /verif/seeded/
"""
import json
import os
import shutil
import subprocess
import sys
import time

VERIF = os.path.dirname(os.path.dirname(os.path.abspath(__file__)))
PY = "/venv/bin/python"


def sh(cmd, cwd=None, env=None, timeout=3600):
    e = dict(os.environ)
    e.update(env or {})
    p = subprocess.run(cmd, shell=True, cwd=cwd, env=e, capture_output=True, text=True, timeout=timeout)
    return p.returncode, p.stdout + p.stderr


def confirm(wt, mdir):
    """The change passes the existing tests, the demonstration fails with it and passes without it."""
    patch = os.path.join(mdir, "patch.diff")
    demo = os.path.join(mdir, "demo.py")
    res = {}
    sh("git checkout -- . && git clean -fdq -e out", cwd=wt)
    rc, out = sh("%s %s" % (PY, demo), cwd=wt)
    res["demo_without"] = rc
    rc, out = sh("git apply %s" % patch, cwd=wt)
    if rc:
        res["apply_failed"] = out[-500:]
        return res
    rc, out = sh("%s -m pytest -q -p no:cacheprovider 2>&1 | tail -1" % PY, cwd=wt)
    res["tests"] = out.strip()
    rc, out = sh("%s %s" % (PY, demo), cwd=wt)
    res["demo_with"] = rc
    res["demo_output"] = out[-400:]
    sh("git checkout -- . && git clean -fdq -e out", cwd=wt)
    res["ok"] = res["demo_without"] == 0 and res["demo_with"] != 0 and "160 passed" in res["tests"] and "3 failed" in res["tests"]
    return res


def run_checks(patch, checks, tier):
    scratch = "/tmp/mutrun-%d" % os.getpid()
    shutil.rmtree(scratch, ignore_errors=True)
    sh("git -C /repo worktree add -q --detach %s HEAD" % scratch)
    try:
        rc, out = sh("git apply %s" % patch, cwd=scratch)
        if rc:
            return {"apply_failed": out}
        results = {}
        t0 = time.time()
        if len(checks) == 1:
            checks = list(checks) + ["C11" if checks[0] != "C11" else "C10"]      # (RESULT lines are printed in multi-check mode)
        rc, out = sh("./check %s --tier %s" % (",".join(checks), tier), cwd=VERIF, env={"VERIF_REPO": scratch, "VERIF_EVIDENCE_DIR": scratch + "-evidence"}, timeout=7200)
        cur = None
        whys = {}
        nviol = {}
        for l in out.splitlines():
            if l.startswith("VIOLATION property="):
                cur = l.split("property=")[1].split()[0]
                nviol[cur] = nviol.get(cur, 0) + 1
            elif l.strip().startswith("why:") and cur and cur not in whys:
                whys[cur] = l.strip()[:300]
            elif l.startswith("RESULT property="):
                pid = l.split("property=")[1].split()[0]
                results[pid] = {"rc": int(l.rsplit("rc=", 1)[1]), "violations": nviol.get(pid, 0), "first_why": whys.get(pid, ""),
                                "machinery": results.get(pid, {}).get("machinery", [])}
            elif l.startswith("MACHINERY-ERROR: property="):
                pid = l.split("property=")[1].split()[0]
                results.setdefault(pid, {})["machinery"] = [l[:300]]
        for c in checks:
            results.setdefault(c, {"rc": 2, "violations": 0, "first_why": "", "machinery": ["no RESULT line: " + out[-300:]]})
        results["_wall_s"] = round(time.time() - t0, 1)
        return results
    finally:
        sh("git -C /repo worktree remove --force %s" % scratch)
        shutil.rmtree(scratch + "-evidence", ignore_errors=True)
        shutil.rmtree(scratch, ignore_errors=True)


def main(argv):
    wt, mdir, sid = argv[:3]
    tier = "quick"
    checks = None
    for a in argv[3:]:
        if a.startswith("--checks"):
            checks = a.split("=", 1)[1].split(",")
        if a.startswith("--tier"):
            tier = a.split("=", 1)[1]
    meta = json.load(open(os.path.join(mdir, "meta.json")))
    conf = confirm(wt, mdir)
    print("confirm:", json.dumps(conf)[:600])
    if not conf.get("ok"):
        print("NOT CONFIRMED - not kept")
        return 1
    dest = os.path.join(os.environ.get("VERIF_SEEDED_DIR") or os.path.join(VERIF, "seeded"), sid)
    os.makedirs(dest, exist_ok=True)
    for f in ("patch.diff", "demo.py"):
        shutil.copy(os.path.join(mdir, f), os.path.join(dest, f))
    if checks is None:
        from . import props

        checks = sorted(props.CHECKS)
    results = run_checks(os.path.join(dest, "patch.diff"), checks, tier)
    wall = results.pop("_wall_s", None)
    meta["check_wall_s"] = wall
    detected = sorted(c for c, r in results.items() if isinstance(r, dict) and r.get("rc") == 1)
    broken = sorted(c for c, r in results.items() if isinstance(r, dict) and r.get("rc") not in (0, 1))
    meta.update({"breaks": meta.get("property"), "confirmed": conf, "ran": {"tier": tier, "checks": results},
                 "detected_by": detected, "machinery_errors": broken,
                 "what_i_ran": "harness.seedtool: applied in a scratch worktree, existing tests, demo with/without, then ./check <id> with VERIF_REPO=<scratch worktree with the patch>"})
    json.dump(meta, open(os.path.join(dest, "meta.json"), "w"), indent=1)
    print("seed %s: breaks %s; detected by %s; machinery errors %s" % (sid, meta.get("property"), detected, broken))
    for c, r in sorted(results.items()):
        print("   %s rc=%s viol=%s %ss %s %s" % (c, r.get("rc"), r.get("violations"), r.get("s"), r.get("first_why", "")[:140], r.get("machinery")))
    return 0


if __name__ == "__main__":
    sys.exit(main(sys.argv[1:]))

"""Spec -> code for pickle / deepcopy (M6b, C19)."""
import copy
import json
import os
import pickle
import sys
import zlib

from . import core
from .query_replay import L


def conv_state(st, k):
    """TLC's state record (functions over integers, printed as arrays or objects) -> label space."""
    def fn(f):
        if isinstance(f, list):
            return {i + 1: v for i, v in enumerate(f)}
        return {int(i): v for i, v in f.items()}

    par, ch, tgt, cls, foo = (fn(st[x]) for x in ("par", "ch", "tgt", "cls", "foo"))
    own = fn(st["own"])
    return {"own": {L(i): [list(kv) for kv in v] for i, v in own.items()},"par": {L(i): L(v) for i, v in par.items()}, "ch": {L(i): [L(x) for x in v] for i, v in ch.items()},
            "tgt": {L(i): L(v) for i, v in tgt.items()}, "cls": {L(i): v for i, v in cls.items()}, "foo": {L(i): v for i, v in foo.items()}}


CLASSES = {"node": "HNode", "anynode": "HAny", "mixin": "HMixin", "light": "HLight", "symlink": "HSym", "symlinkown": "HSymOwn", "lightsub": "HLightSub",
           "falsy": "Adv_falsy_mixin"}


def build(pre):
    from . import nodes as N

    N.new_universe()
    N.Ctx.log = None
    done = set()
    labels = list(pre["par"])
    for lbl in labels:
        c = pre["cls"][lbl]
        if c in ("symlink", "symlinkown"):
            continue
        cls = getattr(N, CLASSES[c])
        if c == "node":
            o = cls(lbl, foo=pre["foo"][lbl])
        elif c == "anynode":
            o = cls(foo=pre["foo"][lbl])
        else:
            o = cls()
            for k, v in pre["own"][lbl]:
                setattr(o, k, v)
        N.register(o, lbl)
        done.add(lbl)
    while len(done) < len(labels):
        for lbl in labels:
            if lbl not in done and pre["tgt"][lbl] in done:
                if pre["cls"][lbl] == "symlinkown":
                    N.register(N.HSymOwn(N.Ctx.objs[pre["tgt"][lbl]], tag=dict(map(tuple, pre["own"][lbl]))["tag"]), lbl)
                else:
                    N.register(N.HSym(N.Ctx.objs[pre["tgt"][lbl]]), lbl)
                done.add(lbl)
    for pp, kids in pre["ch"].items():
        for c in kids:
            N.Ctx.objs[c].parent = N.Ctx.objs[pp]


def target_of(o):
    d = getattr(o, "__dict__", None)
    return d.get("target") if d else None


def project():
    from . import nodes as N

    par, ch = N.snapshot()
    tgt, cls, foo, own = {}, {}, {}, {}
    inv = {v: k for k, v in CLASSES.items()}
    for lbl, o in N.Ctx.objs.items():
        tgt[lbl] = N.label(target_of(o))
        cls[lbl] = inv.get(type(o).__name__, "Other:" + type(o).__name__)
        try:
            foo[lbl] = o.foo if isinstance(o.foo, str) else "Other:" + repr(o.foo)
        except AttributeError:
            foo[lbl] = "AttributeError"
        d = getattr(o, "__dict__", None)
        if d is None:       # __slots__ class
            own[lbl] = [[k, getattr(o, k)] for k in ("foo", "weight") if hasattr(o, k)]
        else:
            own[lbl] = sorted([k, v] for k, v in d.items() if k not in ("target", "name") and not k.startswith("_NodeMixin__") and isinstance(v, str))
    return {"par": par, "ch": ch, "tgt": tgt, "cls": cls, "foo": foo, "own": own}


def register_copy(orig_n, copy_n, k):
    """Walk original and copy in lock-step from (n, result) and label the copy of n<i> as n<k+i>; every other object
    reachable from the copy that is not an original gets a label x<j>. Returns bij (orig label -> copy label)."""
    from . import nodes as N

    bij = {}
    todo = [(orig_n, copy_n)]
    while todo:
        a, b = todo.pop()
        la = N.label(a)
        if b is None or a is None or la in bij:
            continue
        if id(b) in N.Ctx.labels:
            if N.Ctx.labels[id(b)] != "n%d" % (int(la[1:]) + k):
                bij[la] = N.Ctx.labels[id(b)]        # a shared or doubly used object: the judge will see it
            continue
        lb = "n%d" % (int(la[1:]) + k)
        N.register(b, lb)
        bij[la] = lb
        try:
            todo.append((a.parent, b.parent))
            for x, y in zip(a.children, b.children):
                todo.append((x, y))
            ta, tb = target_of(a), target_of(b)
            if ta is not None and tb is not None:
                todo.append((ta, tb))
        except Exception:  # noqa
            pass
    # anything else reachable from the copy
    extra = 0
    seen = set()
    stack = [copy_n]
    while stack:
        o = stack.pop()
        if o is None or id(o) in seen:
            continue
        seen.add(id(o))
        if id(o) not in N.Ctx.labels:
            extra += 1
            N.register(o, "x%d" % extra)
        try:
            stack.append(o.parent)
            stack.extend(o.children)
            stack.append(target_of(o))
        except Exception:  # noqa
            pass
    return bij


EXTRA = "e1"


def with_extra(st, leaf=None):
    """The projection `st` plus the isolated extra node (attached below `leaf` if given)."""
    out = {k: dict(v) for k, v in st.items()}
    light = st["cls"].get(leaf or "", "").startswith("light") if leaf else None
    out["par"][EXTRA] = leaf or "Nil"
    out["ch"][EXTRA] = []
    out["tgt"][EXTRA] = "Nil"
    out["foo"][EXTRA] = "AttributeError"
    out["own"][EXTRA] = []
    if leaf:
        out["ch"][leaf] = list(out["ch"][leaf]) + [EXTRA]
    return out


def perform(vec, fresh=False):
    """fresh: the original is copied straight after construction (nothing has read it), and the copy is then *extended*
    below one of its leaves instead of being cut."""
    from . import nodes as N

    k = vec["k"]
    pre = conv_state(vec["pre"], k)
    z = vec["z"]
    try:
        build(pre)
    except Exception as e:  # noqa: an observation, not a harness failure
        return {"build_failed": True, "built": "raised %s: %s" % (type(e).__name__, str(e)[:200]), "pre": pre}
    n = L(z["n"])
    leaf = None
    if fresh:
        zpost = conv_state(z["post"], k)
        leaves = sorted(x for x in zpost["par"] if x not in pre["par"] and not zpost["ch"][x])
        if not leaves:
            fresh = False
        else:
            leaf = leaves[len(z["how"]) % len(leaves)]
            extra = N.HLight() if zpost["cls"][leaf].startswith("light") else N.HMixin()
            N.register(extra, EXTRA)
            pre = with_extra(pre)
            pre["cls"][EXTRA] = "light" if zpost["cls"][leaf].startswith("light") else "mixin"
    if not fresh:
        built = project()
        if built != pre:
            return {"build_failed": True, "built": built, "pre": pre}
    orig = N.Ctx.objs[n]
    how = z["how"]
    obs = {"pre": pre, "n": n, "mut": "attach" if fresh else "cut", "leaf": leaf or "", "extra": EXTRA if fresh else ""}
    try:
        if how == "deepcopy":
            cp = copy.deepcopy(orig)
        else:
            cp = pickle.loads(pickle.dumps(orig, int(how[6:])))
    except Exception as e:  # noqa
        obs["raised"] = "%s: %s" % (type(e).__name__, str(e)[:200])
        return obs
    obs["bij"] = register_copy(orig, cp, k)
    obs["result"] = N.label(cp)
    obs["post"] = project()
    # independence: mutate the copy, then the original
    root = orig
    while root.parent is not None:
        root = root.parent
    obs["root"] = N.label(root)
    if fresh and {x: {a: b for a, b in v.items() if a in pre["par"]} for x, v in obs["post"].items()} != pre:
        # the originals do not look as intended: was it the copy, or could the pre-state not be built in the first place?
        build(conv_state(vec["pre"], k))
        built = project()
        if built != conv_state(vec["pre"], k):
            return {"build_failed": True, "built": built, "pre": pre}
        return obs | {"raised_after": "the original tree differs from what was built, after copying it"}
    try:
        if fresh:
            N.Ctx.objs[EXTRA].parent = N.Ctx.objs[leaf]
        else:
            cp.parent = None
            del root.children
    except Exception as e:  # noqa
        obs["raised_after"] = "%s: %s" % (type(e).__name__, str(e)[:200])
    obs["after"] = project()
    return obs


def same(vec, obs):
    k = vec["k"]
    z = vec["z"]
    if "raised" in obs or "raised_after" in obs:
        return False
    if obs["mut"] == "attach":
        post = with_extra(conv_state(z["post"], k))
        post["cls"][EXTRA] = obs["pre"]["cls"][EXTRA]
        after = with_extra(conv_state(z["post"], k), obs["leaf"])
        after["cls"][EXTRA] = obs["pre"]["cls"][EXTRA]
        return obs["post"] == post and obs["after"] == after and obs["result"] == L(z["n"] + k)
    return obs["post"] == conv_state(z["post"], k) and obs["after"] == conv_state(z["after"], k) and obs["result"] == L(z["n"] + k)


def worker_init(repo):
    os.environ["ANYTREE_ASSERTIONS"] = "0"
    sys.path.insert(0, repo)
    import anytree  # noqa

    assert os.path.abspath(anytree.__file__).startswith(os.path.abspath(repo)), anytree.__file__
    from . import nodes  # noqa

    # the library's recursive properties and iterators use a few frames per tree level: the chains of the large drawn
    # instances (hundreds of levels) must not depend on how deep the harness's own call stack happens to be
    sys.setrecursionlimit(20000)


@core.safe_worker
def replay_chunk(lines):
    out = {"n": 0, "same": 0, "attention": [], "dropped": 0, "per_how": {}}
    for line in lines:
        if out["dropped"] >= 60:
            # the implementation is evidently broken (and may leak state from copy to copy, which makes every further copy
            # slower): the verdict is settled, the rest of this chunk is not replayed
            out["skipped"] = out.get("skipped", 0) + 1
            continue
        vec = json.loads(json.loads(line))
        out["n"] += 1
        key = "%s:%s" % (vec["fam"], vec["z"]["how"])
        out["per_how"][key] = out["per_how"].get(key, 0) + 1
        try:
            fresh = zlib.crc32(line.encode()) % 2 == 1
            obs = core.call_with_deadline(lambda: perform(vec, fresh))
            if not obs.get("build_failed") and "mut" in obs:
                key2 = "follow-up:" + obs["mut"]
                out["per_how"][key2] = out["per_how"].get(key2, 0) + 1
        except core.Hang:
            obs = {"raised": "Hang: the copy did not return within the time limit", "n": "?"}
        if not obs.get("build_failed") and same(vec, obs):
            out["same"] += 1
        elif len(out["attention"]) < 12:
            out["attention"].append({"vec": vec, "obs": obs})
        else:
            out["dropped"] += 1
    return out

"""Module M6b (pickle / deepcopy): TLC run, replay, judging.  Serves C19."""
from . import clone_replay, core, judge
from . import tlc as T

def big(name, lo, hi, instances, per, maxdepth=90):
    return dict(name=name, MaxN=3, MaxLinks=2, big=dict(BigMin=lo, BigMax=hi, Instances=instances, PerShape=per, MaxDepth=maxdepth))


CONFIGS = {"quick": [dict(name="clone-f4", MaxN=4, MaxLinks=2), big("big-clone-60", 10, 60, 16, 6, 60), big("big-clone-280", 100, 280, 8, 4)],
           "thorough": [dict(name="clone-f5", MaxN=5, MaxLinks=2), big("big-clone-80", 10, 80, 96, 8, 80), big("big-clone-300", 100, 300, 24, 6)]}


def tlc_cfg(c):
    if c.get("big"):
        consts = {"Nil": 0, "NonNode": 77, "MaxStack": 12, "MaxN": c["MaxN"], "MaxLinks": c["MaxLinks"]}
        consts.update(c["big"])
        return T.cfg_text(consts, init="BigInit", next_="BigNext", view="View", action_constraints=("Emit",), deadlock=False)
    return T.cfg_text({"Nil": 0, "NonNode": 77, "MaxStack": 12, "MaxN": c["MaxN"], "MaxLinks": c["MaxLinks"]},
                      view="View", properties=("Thm_Clone",), action_constraints=("Emit",), deadlock=False)


def run_model(c, coverage=False):
    if c.get("big"):
        return T.run_vectors("MC_CloneBig", tlc_cfg(c), c["name"], lambda st: st["distinct"] * c["big"]["PerShape"], workers=1,
                             extra=("-seed", str(29 + core.seed())))
    return T.run_vectors("MC_Clone", tlc_cfg(c), c["name"], lambda st: st["generated"] - st["distinct"])


def run(tier, repo=None, procs=16):
    repo = repo or core.repo_path()
    outcomes = []
    for c in CONFIGS[tier]:
        stats = run_model(c)
        lines = T.read_lines(stats["lines_path"])
        size = max(50, min(2000, len(lines) // (procs * 4) + 1))
        with core.pool(clone_replay.worker_init, (repo,), procs) as p:
            parts = core.pmap(p, clone_replay.replay_chunk, list(core.chunks(lines, size)))
        tot = {"n": 0, "same": 0, "attention": [], "dropped": 0, "per_how": {}}
        for r in parts:
            for k in ("n", "same", "dropped"):
                tot[k] += r[k]
            tot["attention"] += r["attention"]
            tot["skipped"] = tot.get("skipped", 0) + r.get("skipped", 0)
            for k, v in r["per_how"].items():
                tot["per_how"][k] = tot["per_how"].get(k, 0) + v
        tot.update(config=c, tlc=stats, vectors=len(lines))
        outcomes.append(tot)
    events, index = [], {}
    for oi, out in enumerate(outcomes):
        for ai, att in enumerate(out["attention"]):
            o = att["obs"]
            if o.get("build_failed") or "raised" in o or "post" not in o or "after" not in o:
                continue
            ident = "%d.%d" % (oi, ai)
            events.append({"id": ident, "pre": o["pre"], "post": o["post"], "after": o["after"], "n": o["n"], "result": o["result"],
                           "bij": o["bij"], "root": o["root"], "mut": o["mut"], "leaf": o["leaf"], "extra": o["extra"]})
            index[ident] = att
    if events:
        verdicts, _ = judge.run_judge("TraceClone", events[:3000], {"Nil": "Nil", "NonNode": "NonNode", "MaxStack": 12}, tag="judge-clone")
        for i, v in verdicts.items():
            index[i]["verdict"] = sorted(v)
    return outcomes


def classify(outcomes, res):
    for out in outcomes:
        res.add_tlc(out["tlc"])
        res.replayed += out["n"]
        if out.get("skipped"):
            res.notes.append("%d vectors were not replayed after more than 70 mismatches in their chunk" % out["skipped"])
        per = res.extra.setdefault("copies_per_family_and_method", {})
        for k, v in out["per_how"].items():
            per[k] = per.get(k, 0) + v
        for att in out["attention"]:
            o = att["obs"]
            z = att["vec"]["z"]
            if o.get("build_failed"):
                res.notes.append("a pre-state could not be built (mutators broken?): %s" % str(o["built"])[:200])
                continue
            if core.interpreter_limit(o.get("raised") or o.get("raised_after"), o.get("pre", {}).get("par", {})):
                res.extra["skipped_at_the_interpreters_recursion_limit"] = res.extra.get("skipped_at_the_interpreters_recursion_limit", 0) + 1
            elif "raised" in o or "raised_after" in o:
                res.violation({"property": "C19", "module": "clone", "why": "%s of node %s raised %s" % (z["how"], o["n"], o.get("raised") or o.get("raised_after")),
                               "vec": att["vec"], "obs": o})
            elif "C19" in att.get("verdict", []):
                res.violation({"property": "C19", "module": "clone", "why": "%s of node %s: the result is not an independent, consistent, isomorphic copy (judged by TLC)" % (z["how"], o["n"]),
                               "vec": att["vec"], "obs": o})
            else:
                res.drift += 1
    res.extra["configs"] = [o["config"] for o in outcomes]

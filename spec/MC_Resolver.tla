----------------------------- MODULE MC_Resolver -----------------------------
(***************************************************************************)
(* Model-checking configuration M3: Resolver.get / Resolver.glob on every  *)
(* tree shape with up to MaxN nodes under a set of naming schemes, from    *)
(* every start node, for every path/pattern of up to MaxComps components   *)
(* over a pool derived from the names in the tree, relative and absolute,  *)
(* with and without ignorecase / relax.                                    *)
(* TLC checks:  Lem_Get (the round trip lemmas of C07), Thm_Glob (the      *)
(* as-built recursion satisfies RelaxedOK / StrictOK on every transition), *)
(* Lem_Match (sanity of the character-level matcher), and emits vectors.   *)
(***************************************************************************)
EXTENDS Resolver, TLC, Json

CONSTANTS MaxN, MaxComps,
          Queries,      \* subset of {"get", "glob"}
          SchemeIds,    \* which naming schemes to enumerate
          Wild          \* TRUE: add wildcard components to the pool (glob)

VARIABLES k, p, sc, zlast
vars == <<k, p, sc, zlast>>
View == <<k, p, sc>>

RECURSIVE RightPath(_, _)
RightPath(q, i) == IF i = 0 THEN {} ELSE {i} \cup RightPath(q, q[i])
ValidTree(n, q) == q[1] = 0 /\ \A i \in 2..n: q[i] >= 1 /\ q[i] < i /\ q[i] \in RightPath(q, i - 1)

S(str) == str   \* (documentation: names below are sequences of characters)
Schemes == <<
  << <<"r">>, <<"a">>, <<"b">>, <<"c">>, <<"d">> >>,                     \* 1: all distinct
  << <<"a">>, <<"a">>, <<"A">>, <<"a">>, <<"A">> >>,                     \* 2: case variants / same name as parent
  << <<"r">>, <<"a">>, <<"a">>, <<"b">>, <<"a">> >>,                     \* 3: duplicates among siblings
  << <<"a",".","b">>, <<"a","x","b">>, <<"a","+">>, <<"a","a">>, <<"a">> >>,   \* 4: regex metacharacters
  << <<"a","b">>, <<"a","b","c">>, <<"b">>, <<"a">>, <<"b","c">> >>,     \* 5: prefixes / suffixes (anchoring)
  << <<"[","a","]">>, <<"(","a">>, <<"a",";","b">>, <<"a","*">>, <<"$">> >>, \* 6: brackets, other separator, star in a name
  << <<"1">>, <<"2">>, <<"1","0">>, <<"1">>, <<"0">> >>,                 \* 7: numeric path attribute values
  << <<"N","o","n","e">>, <<"N","o","n","e">>, <<"x">>, <<"N","o","n","e">>, <<"x">> >>, \* 8: missing attribute -> "None"
  << <<"a">>, <<"a","\n","b">>, <<"b">>, <<"\n","a">>, <<"a","\n">> >>                   \* 9: a line break inside a name (whole name anchored)
>>

Nodes == 1..k
Par == p
Ch == [i \in Nodes |-> SelectSeq([j \in 1..k |-> j], LAMBDA j: p[j] = i)]
Names == [i \in Nodes |-> Schemes[sc][i]]
SeqsOver(T, m) == UNION {[1..j -> T] : j \in 0..m}

NamePool == {Names[i] : i \in Nodes} \cup {Norm(Names[i], TRUE) : i \in Nodes}
FixedPool == {<<"z", "z">>, DD, Dot, <<>>}
WildPool == {<<"*">>, <<"?">>, Rec, <<"a", "*">>, <<"*", "b">>, <<"a", "?", "b">>, <<"?", "?">>}
Pool == NamePool \cup FixedPool \cup (IF Wild THEN WildPool ELSE {})
Paths == {IF abs THEN <<<<>>>> \o cs ELSE cs : abs \in BOOLEAN, cs \in SeqsOver(Pool, MaxComps)}

Init == /\ k \in 1..MaxN
        /\ p \in [1..k -> 0..(k - 1)]
        /\ sc \in SchemeIds
        /\ zlast = [q |-> "init"]
        /\ ValidTree(k, p)

QGet == "get" \in Queries /\ \E s \in Nodes, cs \in Paths, ic \in BOOLEAN, relax \in BOOLEAN:
          zlast' = [q |-> "get", s |-> s, cs |-> cs, ic |-> ic, relax |-> relax,
                    res |-> Get(Par, Ch, Names, s, cs, ic, relax)]
QGlob == "glob" \in Queries /\ \E s \in Nodes, cs \in Paths, ic \in BOOLEAN:
          zlast' = [q |-> "glob", s |-> s, cs |-> cs, ic |-> ic,
                    strict |-> AGlob(Par, Ch, Names, s, cs, ic, FALSE),
                    relaxed |-> AGlob(Par, Ch, Names, s, cs, ic, TRUE),
                    unique |-> SibUnique(Ch, Names, ic)]
Next == UNCHANGED <<k, p, sc>> /\ (QGet \/ QGlob)

(***************************************************************************)
(* C07: for all nodes m, n of a sibling-unique tree, both spellings of n   *)
(* resolve to n; relaxed = None iff strict raises.                         *)
(***************************************************************************)
Lem_Get == \A ic \in BOOLEAN:
  (SibUnique(Ch, Names, ic) /\ Spellable(Names, "/")) =>
    \A m \in Nodes, n \in Nodes:
      /\ Get(Par, Ch, Names, m, AbsPathOf(Par, Names, n), ic, FALSE) = OkG(<<n>>)
      /\ Get(Par, Ch, Names, m, RelPathOf(Par, Names, m, n), ic, FALSE) = OkG(<<n>>)
      \* on wildcard-free names the strict glob finds exactly that node, too
      /\ (\A x \in Nodes: ~IsWild(Names[x])) =>
            AGlob(Par, Ch, Names, m, AbsPathOf(Par, Names, n), ic, FALSE) = OkR(<<n>>)
Thm_Get == [][zlast'.q = "get" =>
               LET z == zlast'
                   st == GetStrict(Par, Ch, Names, z.s, z.cs, z.ic) IN
               IF z.relax THEN z.res = (IF st.err = "none" THEN st ELSE OkG(<<>>)) ELSE z.res = st]_vars

(***************************************************************************)
(* C08: the as-built recursion satisfies the property predicates.          *)
(***************************************************************************)
Thm_Glob == [][zlast'.q = "glob" =>
                LET z == zlast' IN
                /\ RelaxedOK(Par, Ch, Names, z.s, z.cs, z.ic, z.relaxed)
                /\ (z.unique => StrictOK(Par, Ch, Names, z.s, z.cs, z.ic, z.strict, z.relaxed))]_vars

\* sanity of the character-level matcher (would fail if Match were wrong)
Lem_Match ==
  /\ Match(<<"a", ".", "b">>, <<"a", ".", "b">>, FALSE) /\ ~Match(<<"a", "x", "b">>, <<"a", ".", "b">>, FALSE)
  /\ Match(<<"a", "x", "b">>, <<"a", "?", "b">>, FALSE) /\ ~Match(<<"a", "b">>, <<"a", "?", "b">>, FALSE)
  /\ Match(<<"a", "b">>, <<"a", "*", "b">>, FALSE) /\ Match(<<"a", "x", "b", "x", "b">>, <<"a", "*", "b">>, FALSE)
  /\ ~Match(<<"a", "b", "c">>, <<"a", "b">>, FALSE) /\ ~Match(<<"a", "b">>, <<"a", "b", "c">>, FALSE)
  /\ Match(<<>>, <<"*">>, FALSE) /\ ~Match(<<>>, <<"?">>, FALSE) /\ Match(<<"a", "a">>, <<"*", "*">>, FALSE)
  /\ Match(<<"A">>, <<"a">>, TRUE) /\ ~Match(<<"A">>, <<"a">>, FALSE) /\ Match(<<"a", "+">>, <<"a", "+">>, FALSE)
  /\ ~Match(<<"a", "a">>, <<"a", "+">>, FALSE)

Emit == PrintT(ToJson([k |-> k, p |-> p, names |-> Names, z |-> zlast']))
=============================================================================

--------------------------- MODULE MC_ResolverBig ---------------------------
(***************************************************************************)
(* M3 beyond the exhaustive bounds: Resolver.get / glob on large random    *)
(* trees (BigMin..BigMax nodes; uniform, deep, wide, bushy, star, chain)   *)
(* whose names are derived from the sibling position -- so nodes have ten  *)
(* and more children, names such as a1 / a10 / a100 that are prefixes of   *)
(* each other, long names, upper/lower-case twins, numeric names -- and    *)
(* with drawn paths: spellings of existing nodes (absolute and relative,   *)
(* five and more components), the same with one component replaced by a    *)
(* wrong name or a wildcard, with `**` inserted, and random components.    *)
(* The same theorems as in MC_Resolver are checked on every transition.    *)
(***************************************************************************)
EXTENDS MC_Resolver, Randomization

CONSTANTS BigMin, BigMax, Instances, PerShape

Pick(T, salt) == RandomElement({<<x, salt>> : x \in T})[1]

Weighted(q, i, style) ==
  LET rp == RightPath(q, i - 1)
      w(c) == CASE style = 1 -> (IF c = i - 1 THEN 6 ELSE 1)
                [] style = 2 -> (IF c = q[i - 1] \/ (q[i - 1] = 0 /\ c = i - 1) THEN 8 ELSE 1)
                [] style = 3 -> (IF c = i - 1 \/ c = q[i - 1] THEN 3 ELSE 1)
                [] style = 4 -> (IF c = 1 THEN 8 ELSE 0)
                [] style = 5 -> (IF c = i - 1 THEN 8 ELSE 0)
                [] OTHER -> 1
  IN {t \in (rp \X (1..8)) : t[2] <= w(t[1])}
RECURSIVE Grow(_, _, _, _, _)
Grow(q, i, n, style, salt) ==
  IF i > n THEN q ELSE Grow([q EXCEPT ![i] = Pick(Weighted(q, i, style), <<salt, i>>)[1]], i + 1, n, style, salt)

Digit(d) == <<"0", "1", "2", "3", "4", "5", "6", "7", "8", "9">>[d + 1]
RECURSIVE Dec(_)
Dec(n) == IF n < 10 THEN <<Digit(n)>> ELSE Dec(n \div 10) \o <<Digit(n % 10)>>
Long == <<"a", "b", "x", "-", "a", "b", "x", "-", "a", "b", "x", "-">>

\* naming schemes 101..: names from the position among the siblings (the root has position 0)
BigNames == LET c == Ch
                pos == [i \in Nodes |-> IF p[i] = 0 THEN 0 ELSE IndexOf(c[p[i]], i)] IN
  [i \in Nodes |->
     CASE sc = 101 -> <<"a">> \o Dec(pos[i])                                     \* a1 .. a10 .. a100: prefixes of each other
       [] sc = 102 -> <<"b">> \o Dec(pos[i] % 3)                                 \* duplicates among siblings
       [] sc = 103 -> Dec(pos[i])                                                \* numeric attribute values
       [] sc = 104 -> (IF pos[i] % 2 = 0 THEN Long ELSE Norm(Long, TRUE)) \o Dec(pos[i] \div 2)  \* long names, case twins
       [] OTHER -> <<"x">> \o Dec(i)]

BigInit == \E j \in 1..Instances:
             /\ k = IF j % 6 \in {4, 5} THEN BigMax - ((j \div 6) % 10) ELSE Pick(BigMin..BigMax, j)
             /\ p = Grow([i \in 1..k |-> 0], 2, k, j % 6, j)
             /\ sc = 101 + (j % 4)
             /\ zlast = [q |-> "init"]

Wrong == <<"z", "z">>
\* one component of cs (not the leading empty one of an absolute path) replaced
Replace(cs, i, c) == [cs EXCEPT ![i] = c]
WildOf(c, salt) == CASE Pick(1..4, <<salt, 20>>) = 1 -> <<"*">>
                     [] Pick(1..3, <<salt, 21>>) = 1 -> <<c[1], "*">>
                     [] Pick(1..2, <<salt, 22>>) = 1 -> [x \in 1..Len(c) |-> IF x = Len(c) THEN "?" ELSE c[x]]
                     [] OTHER -> SubSeq(c, 1, Len(c) - 1) \o <<"*">>
\* (every drawn value is bound by \E over a singleton in BigNext before it is used twice)
BasePath(names, s, t, mode) == IF mode % 2 = 0 THEN AbsPathOf(Par, names, t) ELSE RelPathOf(Par, names, s, t)
Idx(base, mode) == {i \in (IF mode % 2 = 0 THEN 2 ELSE 1)..Len(base) : base[i] # DD /\ base[i] # <<>>}
Modify(base, i, mode, salt) ==
  CASE mode \in {0, 1} \/ i = 0 -> base
    [] mode \in {2, 3} -> Replace(base, i, Wrong)
    [] mode \in {4, 5} -> Replace(base, i, WildOf(base[i], salt))
    [] mode \in {6, 7} -> SubSeq(base, 1, i - 1) \o <<Rec>> \o SubSeq(base, i, Len(base))
    [] OTHER -> base \o <<Pick({DD, Dot, <<>>, Wrong, <<"*">>}, <<salt, 33>>)>>

BigNext ==
  /\ UNCHANGED <<k, p, sc>>
  /\ \E i \in 1..PerShape: \E names \in {BigNames}: \E s \in {Pick(Nodes, <<i, 1, k>>)}, t \in {Pick(Nodes, <<i, 2, k>>)},
        ic \in {Pick(BOOLEAN, <<i, 3>>)}, relax \in {Pick(BOOLEAN, <<i, 4>>)}, mode0 \in {Pick(0..9, <<i, 5>>)}:
     \E mode \in {IF "glob" \in Queries THEN mode0 ELSE mode0 % 4}: \E base \in {BasePath(names, s, t, mode)}:
     \E at \in {IF Idx(base, mode) = {} THEN 0 ELSE Pick(Idx(base, mode), <<i, 6>>)}: \E cs \in {Modify(base, at, mode, <<i, 7>>)}:
       IF "glob" \in Queries /\ (mode >= 4 \/ "get" \notin Queries)
       THEN zlast' = [q |-> "glob", s |-> s, cs |-> cs, ic |-> ic,
                      strict |-> AGlob(Par, Ch, names, s, cs, ic, FALSE),
                      relaxed |-> AGlob(Par, Ch, names, s, cs, ic, TRUE),
                      unique |-> SibUnique(Ch, names, ic)]
       ELSE zlast' = [q |-> "get", s |-> s, cs |-> cs, ic |-> ic, relax |-> relax,
                      res |-> Get(Par, Ch, names, s, cs, ic, relax)]

\* the theorems of MC_Resolver, over the drawn names
BigThm_Get == [][zlast'.q = "get" =>
               LET z == zlast'
                   st == GetStrict(Par, Ch, BigNames, z.s, z.cs, z.ic) IN
               IF z.relax THEN z.res = (IF st.err = "none" THEN st ELSE OkG(<<>>)) ELSE z.res = st]_vars
BigThm_Glob == [][zlast'.q = "glob" =>
                LET z == zlast' IN
                /\ RelaxedOK(Par, Ch, BigNames, z.s, z.cs, z.ic, z.relaxed)
                /\ (z.unique => StrictOK(Par, Ch, BigNames, z.s, z.cs, z.ic, z.strict, z.relaxed))]_vars
BigEmit == PrintT(ToJson([k |-> k, p |-> p, names |-> BigNames, z |-> zlast']))
=============================================================================

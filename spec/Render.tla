------------------------------- MODULE Render -------------------------------
(***************************************************************************)
(* anytree.render.RenderTree (C09).                                        *)
(*                                                                         *)
(* A row is [pre, fill, node]; pre and fill are sequences of *segments*    *)
(*   "V" vertical bar   "B" blank   "C" continue branch   "E" end branch   *)
(* which the harness renders with the style's strings (all of one width).  *)
(* childiter is a function on child sequences, given as a record           *)
(*   [kind |-> "list" | "reversed" | "sorted" | "filter", hide, key]       *)
(* ("sorted" orders by key[n], "filter" drops the nodes in hide).          *)
(*                                                                         *)
(* Property layer: RowsDef -- rows in pre-order of the childiter-ordered   *)
(* children, segments from "has a following sibling", directly as the      *)
(* property states it.  As-built layer: ARows -- the recursion of          *)
(* RenderTree.__next, which threads a tuple of `continues` flags.          *)
(***************************************************************************)
EXTENDS Tree

\* "sorted" orders by the integer key ci.key[n] (an injective function on the nodes)
RECURSIVE Ins(_, _, _)
Ins(x, s, key) == IF s = <<>> THEN <<x>> ELSE IF key[x] < key[Head(s)] THEN <<x>> \o s ELSE <<Head(s)>> \o Ins(x, Tail(s), key)
RECURSIVE SortBy(_, _)
SortBy(s, key) == IF s = <<>> THEN <<>> ELSE Ins(Head(s), SortBy(Tail(s), key), key)

ChildIter(ci, s) == CASE ci.kind = "list" -> s
                      [] ci.kind = "reversed" -> Rev(s)
                      [] ci.kind = "sorted" -> SortBy(s, ci.key)
                      [] ci.kind = "filter" -> SelectSeq(s, LAMBDA x: x \notin ci.hide)
K(ch, ci, n) == ChildIter(ci, ch[n])

\* rows exist for relative depth < max(maxlevel, 1)
DepthLimit(ml) == IF ml = NoMax THEN NoMax ELSE IF ml < 1 THEN 1 ELSE ml

(******************************* property layer ****************************)
\* pre-order of the childiter-ordered tree, cut at the depth limit; each entry is the chain start .. node
RECURSIVE Chains(_, _, _, _, _)
Chains(ch, ci, chain, d, lim) ==
  LET n == chain[Len(chain)] IN
  <<chain>> \o (IF d + 1 < lim
                THEN Flat([i \in 1..Len(K(ch, ci, n)) |-> Chains(ch, ci, Append(chain, K(ch, ci, n)[i]), d + 1, lim)])
                ELSE <<>>)
\* the node a_j of the chain has a following sibling in the childiter-ordered list of a_(j-1)
HasNext(ch, ci, chain, j) == LET sibs == K(ch, ci, chain[j - 1]) IN chain[j] # sibs[Len(sibs)]
RowOf(ch, ci, chain) ==
  LET d == Len(chain) - 1 IN
  [node |-> chain[Len(chain)],
   pre  |-> [j \in 1..d |-> IF j < d THEN (IF HasNext(ch, ci, chain, j + 1) THEN "V" ELSE "B")
                                     ELSE (IF HasNext(ch, ci, chain, j + 1) THEN "C" ELSE "E")],
   fill |-> [j \in 1..d |-> IF HasNext(ch, ci, chain, j + 1) THEN "V" ELSE "B"]]
RowsDef(ch, start, ci, ml) ==
  LET cs == Chains(ch, ci, <<start>>, 0, DepthLimit(ml)) IN [i \in 1..Len(cs) |-> RowOf(ch, ci, cs[i])]

(******************************* as-built layer ****************************)
\* RenderTree.__item(node, continues, style)
AItem(n, conts) ==
  IF conts = <<>> THEN [node |-> n, pre |-> <<>>, fill |-> <<>>]
  ELSE LET items == [j \in 1..Len(conts) |-> IF conts[j] THEN "V" ELSE "B"] IN
       [node |-> n,
        pre  |-> SubSeq(items, 1, Len(items) - 1) \o <<IF conts[Len(conts)] THEN "C" ELSE "E">>,
        fill |-> items]
\* RenderTree.__next(node, continues, level) with _is_last over childiter(children)
RECURSIVE ANext(_, _, _, _, _, _)
ANext(ch, ci, ml, n, conts, level) ==
  <<AItem(n, conts)>>
  \o (IF ml = NoMax \/ level + 1 < ml
      THEN LET kids == IF ch[n] = <<>> THEN <<>> ELSE K(ch, ci, n) IN
           Flat([i \in 1..Len(kids) |-> ANext(ch, ci, ml, kids[i], Append(conts, i # Len(kids)), level + 1)])
      ELSE <<>>)
ARows(ch, start, ci, ml) == ANext(ch, ci, ml, start, <<>>, 0)

(******************************* faithfulness *****************************)
\* the shape can be reconstructed from the rows alone: the parent of a row is the nearest earlier row
\* whose prefix is one segment shorter
DecodeParent(rows, i) ==
  IF Len(rows[i].pre) = 0 THEN Nil
  ELSE LET js == {j \in 1..(i - 1) : Len(rows[j].pre) = Len(rows[i].pre) - 1} IN rows[MaxOf(js)].node

(******************************* text *************************************)
\* str(RenderTree) / by_attr: pre + first line, fill + each further line; an empty value still gives one line.
\* nl[n] = number of lines of the node's value; entries are [pf |-> segments, node, j] (j = 0: the empty line)
TextOf(rows, nl) ==
  Flat([i \in 1..Len(rows) |->
     IF nl[rows[i].node] = 0 THEN <<[pf |-> rows[i].pre, node |-> rows[i].node, j |-> 0]>>
     ELSE [j \in 1..nl[rows[i].node] |-> [pf |-> IF j = 1 THEN rows[i].pre ELSE rows[i].fill, node |-> rows[i].node, j |-> j]]])
=============================================================================

------------------------------ MODULE MC_Render ------------------------------
(***************************************************************************)
(* Model-checking configuration M4: RenderTree on every tree shape up to   *)
(* MaxN nodes, every start node, childiter in {list, reversed, sorted,     *)
(* filter(S)}, every maxlevel, several line-count assignments.             *)
(* TLC checks as-built = definition (Thm_Rows) and the faithfulness lemma  *)
(* (the shape can be decoded from the rows) and emits vectors.             *)
(***************************************************************************)
EXTENDS Render, TLC, Json

CONSTANTS MaxN, MaxHide

VARIABLES k, p, zlast
vars == <<k, p, zlast>>
View == <<k, p>>

RECURSIVE RightPath(_, _)
RightPath(q, i) == IF i = 0 THEN {} ELSE {i} \cup RightPath(q, q[i])
ValidTree(n, q) == q[1] = 0 /\ \A i \in 2..n: q[i] >= 1 /\ q[i] < i /\ q[i] \in RightPath(q, i - 1)

Nodes == 1..k
Par == p
Ch == [i \in Nodes |-> SelectSeq([j \in 1..k |-> j], LAMBDA j: p[j] = i)]
Sub(s) == SetOf(PreOrder(Ch, s))
KeyFn == [i \in Nodes |-> (i * 7) % 11]
CIs(s) == {[kind |-> kd, hide |-> {}, key |-> KeyFn] : kd \in {"list", "reversed", "sorted"}}
          \cup {[kind |-> "filter", hide |-> H, key |-> KeyFn] : H \in {T \in SUBSET (Sub(s) \ {s}) : Cardinality(T) >= 1 /\ Cardinality(T) <= MaxHide}}
Levels(s) == (0..(Height(Ch, s) + 2)) \cup {NoMax}
LineCounts == {[i \in Nodes |-> (i + off) % 4] : off \in 0..3}

Init == /\ k \in 1..MaxN
        /\ p \in [1..k -> 0..(k - 1)]
        /\ zlast = [q |-> "init"]
        /\ ValidTree(k, p)

Next == /\ UNCHANGED <<k, p>>
        /\ \E s \in Nodes: \E ci \in CIs(s), ml \in Levels(s), nl \in LineCounts:
             \E rows \in {RowsDef(Ch, s, ci, ml)}:
             zlast' = [q |-> "render", s |-> s, ci |-> ci, ml |-> ml, nl |-> nl, rows |-> rows, text |-> TextOf(rows, nl),
                       path |-> PathTo(Par, s)]

Thm_Rows == [][ARows(Ch, zlast'.s, zlast'.ci, zlast'.ml) = zlast'.rows]_vars

\* faithfulness: decoding the prefixes gives back the (childiter-ordered, depth-limited) shape
Lem_Decode == [][LET rows == zlast'.rows IN
                 /\ rows[1].node = zlast'.s /\ rows[1].pre = <<>> /\ rows[1].fill = <<>>
                 /\ \A i \in 2..Len(rows):
                      /\ DecodeParent(rows, i) = Par[rows[i].node]
                      /\ Len(rows[i].pre) = RelDepth(Par, zlast'.s, rows[i].node)
                      /\ Len(rows[i].fill) = Len(rows[i].pre)
                 \* exactly the nodes below the depth limit that childiter does not drop
                 /\ {rows[i].node : i \in 1..Len(rows)} =
                      {m \in Sub(zlast'.s) : RelDepth(Par, zlast'.s, m) < DepthLimit(zlast'.ml)
                                             /\ Between(Par, zlast'.s, m) \cap zlast'.ci.hide = {}}
                 /\ ~HasDup([i \in 1..Len(rows) |-> rows[i].node])]_vars

Emit == PrintT(ToJson([k |-> k, p |-> p, z |-> zlast']))
=============================================================================

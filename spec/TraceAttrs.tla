----------------------------- MODULE TraceAttrs -----------------------------
(***************************************************************************)
(* Judge for symlink observations (C20): [id, pre, act, n, a1, a2, post]   *)
(* pre/post = [alive, tgt, par, ch, reads(, own)] projections of the real  *)
(* objects.  The property layer is deterministic here, so the verdict is:  *)
(* the observed post-state equals the specified one (reads of every key on *)
(* every node, structure, targets) and reads are forwarded.                *)
(***************************************************************************)
EXTENDS Attrs, TLC, Json, IOUtils
VARIABLE l
Trace == ndJsonDeserialize(IOEnv.TRACE_FILE)
Keys == {"foo", "_bar", "name"}     \* an ordinary, an underscore-prefixed and a class-defined attribute name
AliveOf(s) == SetOf(s.alive)
\* reconstruct `own` of the ordinary nodes from what they read (links own nothing)
OwnOf(s) == [n \in AliveOf(s) |-> IF s.tgt[n] # Nil THEN [x \in {} |-> "1"]
                                  ELSE [key \in {x \in Keys : s.reads[n][x] # AttrErr} |-> s.reads[n][key]]]
Spec(e) ==
  LET pre == e.pre al == AliveOf(pre) ow == OwnOf(pre) IN
  CASE e.act = "newlink" ->
         LET al2 == al \cup {e.n}
             tg == [x \in al2 |-> IF x = e.n THEN e.a1[1] ELSE pre.tgt[x]]
             ow1 == [x \in al2 |-> IF x = e.n THEN [y \in {} |-> "1"] ELSE ow[x]]
             par1 == [x \in al2 |-> IF x = e.n THEN Nil ELSE pre.par[x]]
             ch1 == [x \in al2 |-> IF x = e.n THEN <<>> ELSE pre.ch[x]]
             ok == AcceptedKws(ow1, tg, e.n, e.a2)
             st == IdealSP(par1, ch1, e.n, e.a1[2]) IN
         IF ok = e.a2
         THEN [alive |-> al2, tgt |-> tg, par |-> st.par, ch |-> st.ch, reads |-> Reads(SetAll(ow1, tg, e.n, e.a2), tg, al2, Keys), exc |-> Nil]
         ELSE [alive |-> al, tgt |-> pre.tgt, par |-> pre.par, ch |-> pre.ch,
               reads |-> Reads([x \in al |-> SetAll(ow1, tg, e.n, ok)[x]], pre.tgt, al, Keys), exc |-> AttrErr]
    [] e.act = "setattr" ->
         IF Refuses(ow, pre.tgt, e.n, e.a1[1])
         THEN [alive |-> al, tgt |-> pre.tgt, par |-> pre.par, ch |-> pre.ch, reads |-> Reads(ow, pre.tgt, al, Keys), exc |-> AttrErr]
         ELSE [alive |-> al, tgt |-> pre.tgt, par |-> pre.par, ch |-> pre.ch,
               reads |-> Reads(Set(ow, pre.tgt, e.n, e.a1[1], e.a1[2]), pre.tgt, al, Keys), exc |-> Nil]
    [] e.act = "sp" ->
         LET r == RefuseSP(pre.par, e.n, e.a1[1], TRUE)
             st == IF r = Nil THEN IdealSP(pre.par, pre.ch, e.n, e.a1[1]) ELSE [par |-> pre.par, ch |-> pre.ch] IN
         [alive |-> al, tgt |-> pre.tgt, par |-> st.par, ch |-> st.ch, reads |-> Reads(ow, pre.tgt, al, Keys), exc |-> r]
    [] e.act = "sc" ->
         LET r == RefuseSC(pre.par, e.n, e.a1, FALSE, TRUE)
             st == IF r = Nil THEN IdealSC(pre.par, pre.ch, e.n, e.a1) ELSE [par |-> pre.par, ch |-> pre.ch] IN
         [alive |-> al, tgt |-> pre.tgt, par |-> st.par, ch |-> st.ch, reads |-> Reads(ow, pre.tgt, al, Keys), exc |-> r]
C20_OK(e) ==
  LET s == Spec(e) p == e.post IN
  /\ AliveOf(p) = s.alive /\ p.tgt = s.tgt /\ p.reads = s.reads /\ e.exc = s.exc
  \* structure: as for any other node.  What a *refused* parent / children assignment leaves behind is C03's business
  \* (where the pinned code has listed deviations, e.g. stolen children are not returned): here only that it is a forest.
  /\ IF e.act \in {"sp", "sc"} /\ s.exc # Nil THEN WellFormed(p.par, p.ch) ELSE p.par = s.par /\ p.ch = s.ch
  /\ \A n \in s.alive: p.tgt[n] # Nil => p.reads[n] = p.reads[p.tgt[n]]
TInit == l = 1
TNext == l <= Len(Trace) /\ PrintT(ToString(<<"J", l, Trace[l].id, IF C20_OK(Trace[l]) THEN {} ELSE {"C20"}>>)) /\ l' = l + 1
Accepted == TLCGet("stats").diameter - 1 = Len(Trace)
=============================================================================

------------------------------- MODULE Export -------------------------------
(***************************************************************************)
(* Exporters and importers: DictExporter/DictImporter (C10), the JSON      *)
(* wrappers (C11), DotExporter/UniqueDotExporter (C12), MermaidExporter    *)
(* (C13).                                                                  *)
(*                                                                         *)
(* Attribute values are opaque tokens; an attribute dictionary is a        *)
(* sequence of <<key, value>> pairs (insertion order).  Text output is a   *)
(* sequence of line tokens which the harness renders with the concrete     *)
(* names / option strings / user functions of the vector.                  *)
(***************************************************************************)
EXTENDS Render      \* ChildIter, SortBy; Tree: VisitPre, PreOrder ...

(******************************** C10: dictionaries ************************)
\* attriter: None / sorted by key / dropping private keys
\* Python's str order of the key pool: "_p" < "a" < "b" < "k1" < "k10" < "k11" < "k12" < "k2" < ... < "k9" < "name"
KeyOrder == <<"_p", "a", "b", "k1", "k10", "k11", "k12", "k2", "k3", "k4", "k5", "k6", "k7", "k8", "k9", "name">>
KeyRank(key) == IF InSeq(KeyOrder, key) THEN IndexOf(KeyOrder, key) ELSE Len(KeyOrder) + 1
RECURSIVE InsPair(_, _)
InsPair(x, s) == IF s = <<>> THEN <<x>> ELSE IF KeyRank(x[1]) < KeyRank(Head(s)[1]) THEN <<x>> \o s ELSE <<Head(s)>> \o InsPair(x, Tail(s))
RECURSIVE SortPairs(_)
SortPairs(s) == IF s = <<>> THEN <<>> ELSE InsPair(Head(s), SortPairs(Tail(s)))
AttrIter(kind, pairs) == CASE kind = "none" -> pairs
                           [] kind = "sorted" -> SortPairs(pairs)
                           [] kind = "public" -> SelectSeq(pairs, LAMBDA kv: kv[1] # "_p")

\* DictExporter.export: nested [pairs, children]; nodes at relative depth >= maxlevel are cut, the start node always exported;
\* the 'children' entry exists iff the list is non-empty (an empty `children` stands for "no entry")
RECURSIVE ExportDef(_, _, _, _, _)
ExportDef(ch, attrs, n, o, level) ==
  [pairs |-> AttrIter(o.attriter, attrs[n]),
   children |-> IF o.ml = NoMax \/ level < o.ml
                THEN [i \in 1..Len(ChildIter(o.ci, ch[n])) |-> ExportDef(ch, attrs, ChildIter(o.ci, ch[n])[i], o, level + 1)]
                ELSE <<>>]
Export(ch, attrs, n, o) == ExportDef(ch, attrs, n, o, 1)

\* DictImporter.import_: allocates nodes; in the model they are numbered in pre-order of the dictionary, so that
\* importing the export of a canonically labelled tree gives back the same labelling
RECURSIVE Imp(_, _, _)
RECURSIVE ImpKids(_, _, _)
Imp(d, parentidx, acc) ==
  LET me == Len(acc.p) + 1
      acc1 == [p |-> Append(acc.p, parentidx), attrs |-> Append(acc.attrs, d.pairs)]
  IN ImpKids(d.children, me, acc1)
ImpKids(ds, me, acc) == IF ds = <<>> THEN acc ELSE ImpKids(Tail(ds), me, Imp(Head(ds), me, acc))
Import(d) == Imp(d, 0, [p |-> <<>>, attrs |-> <<>>])           \* [p: parent array (0 = none), attrs: per node]
\* the same dictionaries in flat form -- pre-order list of [lv, pairs, nk] (depth, attribute pairs, number of children).
\* The judge receives observed dictionaries in this form: the JSON reader of the tool chain limits nesting to 255 levels.
RECURSIVE FlatOf(_, _)
FlatOf(d, lv) == <<[lv |-> lv, pairs |-> d.pairs, nk |-> Len(d.children)]>>
                 \o Flat([i \in 1..Len(d.children) |-> FlatOf(d.children[i], lv + 1)])
\* import of a flat dictionary: the parent of an entry is the nearest earlier entry one level up
ImportFlat(f) == [p |-> [i \in 1..Len(f) |-> IF f[i].lv = 0 THEN 0
                                             ELSE MaxOf({j \in 1..(i - 1) : f[j].lv = f[i].lv - 1})],
                  attrs |-> [i \in 1..Len(f) |-> f[i].pairs]]
ChOfArray(q) == [i \in 1..Len(q) |-> SelectSeq([j \in 1..Len(q) |-> j], LAMBDA j: q[j] = i)]

DefaultOpts == [attriter |-> "none", ci |-> [kind |-> "list", hide |-> {}, key |-> <<>>], ml |-> NoMax]

(******************************** C11: JSON ********************************)
\* JsonExporter(dictexporter=D, maxlevel=m, **kw).export(n) == dumps(D'.export(n), **kw) where D' is D (or a default
\* DictExporter) with maxlevel replaced by m unless m is None; dumps/loads stay uninterpreted (the json module)
JsonEffective(dopts, jml) == IF jml = NoMax THEN dopts ELSE [dopts EXCEPT !.ml = jml]
JsonExport(ch, attrs, n, dopts, jml) == Export(ch, attrs, n, JsonEffective(dopts, jml))

(******************************** C12 / C13: graphs ***********************)
Declared(par, ch, s, fl, st, ml) == VisitPre(par, ch, s, fl, st, ml)
\* one edge for every parent-child pair whose two ends are both declared, in (parent pre-order, child order)
EdgesAmong(ch, decl) ==
  Flat([i \in 1..Len(decl) |-> LET a == decl[i] IN
          [j \in 1..Len(SelectSeq(ch[a], LAMBDA b: InSeq(decl, b))) |-> <<a, SelectSeq(ch[a], LAMBDA b: InSeq(decl, b))[j]>>]])
GraphDef(par, ch, s, fl, st, ml) ==
  LET decl == Declared(par, ch, s, fl, st, ml) IN [nodes |-> decl, edges |-> EdgesAmong(ch, decl)]

\* as-built two-pass generation.  `self.maxlevel - 1 if self.maxlevel is not None else None` (after the fix: commit;
\* the pinned code tested truthiness, so that maxlevel=0 emitted every edge and no node)
EdgeLevel(ml) == IF ml = NoMax THEN NoMax ELSE ml - 1
\* DotExporter.__iter_edges re-checks only filter_ on the child (named deviation stop_edge: an edge into a stopped child)
ADotEdges(par, ch, s, fl, st, ml) ==
  LET parents == VisitPre(par, ch, s, fl, st, EdgeLevel(ml)) IN
  Flat([i \in 1..Len(parents) |-> LET a == parents[i] kids == SelectSeq(ch[a], LAMBDA b: b \in fl) IN
          [j \in 1..Len(kids) |-> <<a, kids[j]>>]])
\* MermaidExporter.__iter_edges re-checks filter_ and stop
AMermaidEdges(par, ch, s, fl, st, ml) ==
  LET parents == VisitPre(par, ch, s, fl, st, EdgeLevel(ml)) IN
  Flat([i \in 1..Len(parents) |-> LET a == parents[i] kids == SelectSeq(ch[a], LAMBDA b: b \in fl /\ b \notin st) IN
          [j \in 1..Len(kids) |-> <<a, kids[j]>>]])
ADot(par, ch, s, fl, st, ml) == [nodes |-> Declared(par, ch, s, fl, st, ml), edges |-> ADotEdges(par, ch, s, fl, st, ml)]
AMermaid(par, ch, s, fl, st, ml) == [nodes |-> Declared(par, ch, s, fl, st, ml), edges |-> AMermaidEdges(par, ch, s, fl, st, ml)]
StopEdges(es, st) == SelectSeq(es, LAMBDA e: e[2] \in st)        \* the edges the deviation stop_edge adds

\* identifier escaping: every double quote and backslash is prefixed by a backslash
RECURSIVE Esc(_)
Esc(s) == IF s = <<>> THEN <<>>
          ELSE (IF Head(s) \in {"\"", "\\"} THEN <<"\\", Head(s)>> ELSE <<Head(s)>>) \o Esc(Tail(s))
RECURSIVE UnEsc(_)
UnEsc(s) == IF s = <<>> THEN <<>>
            ELSE IF Head(s) = "\\" /\ Len(s) >= 2 THEN <<s[2]>> \o UnEsc(Tail(Tail(s)))
            ELSE <<Head(s)>> \o UnEsc(Tail(s))
=============================================================================

----------------------------- MODULE MC_OpsSim -----------------------------
(***************************************************************************)
(* Simulation configuration of M1: long *histories* of public calls on one *)
(* forest (tlc -simulate).  Every step draws one call and one fault plan   *)
(* at random (TLC!RandomElement), so that each state has exactly one       *)
(* successor and the emitted vectors of one behaviour form a chain: the    *)
(* post-state of a line is the pre-state of the next.  The harness replays *)
(* a chain on the *same live objects* (nothing is rebuilt between calls),  *)
(* which is what exposes state the implementation carries from call to     *)
(* call outside the abstract forest (caches, flags, shared containers).    *)
(* The theorems of MC_Ops are checked on every step of every behaviour.    *)
(***************************************************************************)
EXTENDS MC_Ops

\* TLC evaluates constant-level expressions once and remembers the value: every draw is therefore made from a set that
\* mentions the current state
Pick(S) == RandomElement({<<x, parent, children>> : x \in S})[1]

SimCalls(kind) ==
  CASE kind <= 3 -> {FrSP(n, v) : n \in Node, v \in Node \cup {Nil}}
    \* (arbitrary sequences are mostly refused for duplicates: half of the assignments draw duplicate-free ones)
    [] kind = 4 -> {FrSC(n, xs) : n \in Node, xs \in {q \in SeqsOver(Node, MaxLen) : ~HasDup(q)}}
    [] kind = 5 -> {FrSC(n, xs) : n \in Node, xs \in SeqsOver(Node, MaxLen)}
    [] OTHER -> {FrDC(n) : n \in Node}

SimNext == \E kind \in {Pick(1..6)}: \E fr \in {Pick(SimCalls(kind))}:
             \E faulty \in {Pick(1..10) > 6}:
             \E fp \in {IF faulty THEN Pick(Plans(parent, children, fr)) ELSE NoFault}:
               \E r \in {Run(Begin(parent, children, fr, fp, Strict, Asrt))}:
                 /\ parent' = r.par /\ children' = r.ch
                 /\ zlast' = ObsOf(parent, children, fr, fp, r)
=============================================================================

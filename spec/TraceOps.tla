------------------------------ MODULE TraceOps ------------------------------
(***************************************************************************)
(* Code -> spec for the structural mutators, and the judge.                *)
(*                                                                         *)
(* Reads observations of the real code (one JSON object per line, the      *)
(* record described in NodeOpsProps) and, per observation, lets TLC        *)
(*  - evaluate the property predicates C01, C02, C03, C16 on it, and       *)
(*  - decide whether the as-built interpreter explains it (conformance).   *)
(* A line the specification cannot explain never ends the run: the verdict *)
(* is printed and the next line is judged from its own logged pre-state.   *)
(* Lines with "chain": TRUE must start in the state the previous line      *)
(* ended in (recorded executions); otherwise lines are independent         *)
(* (observations sent back by the replayer).                               *)
(***************************************************************************)
EXTENDS NodeOpsProps, TLC, Json, IOUtils

VARIABLES l, par, ch     \* position in the trace; forest after the last line
tvars == <<l, par, ch>>

Trace == ndJsonDeserialize(IOEnv.TRACE_FILE)

PlanOf(e) == [mode |-> e.plan.mode, ks |-> ToSet(e.plan.ks), kinds |-> ToSet(e.plan.kinds), nodes |-> ToSet(e.plan.nodes)]
FrameOf(e) == CASE e.k = "sp" -> FrSP(e.n, e.v)
                [] e.k = "dc" -> FrDC(e.n)
                [] e.k = "sc" -> (IF e.bad THEN FrSCBad(e.n) ELSE FrSC(e.n, e.xs))
                [] e.k = "ct" -> FrCT(e.n, e.v, e.xs)
\* the observation as the property layer wants it (sets instead of JSON arrays)
ObsOf(e) == [e EXCEPT !.plan = PlanOf(e)]

LogEq(ml, ol) == /\ Len(ml) = Len(ol)
                 /\ \A i \in 1..Len(ml): /\ ml[i].h = ol[i].h /\ ml[i].n = ol[i].n /\ ml[i].a = ol[i].a
                                         /\ ml[i].r = ol[i].r /\ ml[i].par = ol[i].par /\ ml[i].ch = ol[i].ch

\* candidate fault plans for events recorded without hook logs (arbitrary user classes):
\* TLC infers which hook raised
PlansFor(e) ==
  IF e.haslog \/ e.sure THEN {PlanOf(e)}
  ELSE IF e.exc \notin {"HookFault", "RecursionError"} THEN {NoFault}
  ELSE {Once({k}) : k \in 1..40}
       \cup {Persist(K, DOMAIN e.prepar) : K \in {{h} : h \in HookKinds} \cup {{"pre_detach", "pre_attach"}}}

PreOK(e) == WellFormed(e.prepar, e.prech) /\ e.n \in DOMAIN e.prepar
            /\ (e.strict \/ (e.v # NonNode /\ ~InSeq(e.xs, NonNode)))
            /\ (e.v \in DOMAIN e.prepar \cup {Nil, NonNode})
            /\ \A i \in 1..Len(e.xs): e.xs[i] \in DOMAIN e.prepar \cup {NonNode}

Explained(e) ==
  PreOK(e) /\
  \E fp \in PlansFor(e): \E r \in {Run(Begin(e.prepar, e.prech, FrameOf(e), fp, e.strict, e.asrt))}:
     /\ r.exc = e.exc
     /\ (e.exc # "RecursionError" =>
           /\ r.par = e.postpar /\ r.ch = e.postch
           /\ (e.haslog => (LogEq(r.log, e.log) /\ r.src = e.src)))

\* the property predicates that can be evaluated on this kind of record
Violated(e) ==
  LET o == ObsOf(e) IN
  (IF ~C01_OK(o) THEN {"C01"} ELSE {})
  \* (the other predicates only need a well-formed pre-state: a corrupt post-state also fails to be the specified effect)
  \cup (IF PreOK(e) /\ DOMAIN o.postpar = DOMAIN o.prepar /\ DOMAIN o.postch = DOMAIN o.prech
        THEN (IF (e.haslog \/ e.exc \notin {"HookFault", "RecursionError"} \/ (e.sure /\ e.plan.mode = "none")) /\ ~C02_OK(o) THEN {"C02"} ELSE {})
             \cup (IF (e.haslog \/ Refused(o)) /\ ~C03_OK(o) THEN {"C03"} ELSE {})
             \cup (IF e.haslog /\ ~C16_OK(o) THEN {"C16"} ELSE {})
        ELSE {})

Chained(e) == ~e.chain \/ l = 1 \/
              \A n \in DOMAIN e.prepar: n \in DOMAIN par => (par[n] = e.prepar[n] /\ ch[n] = e.prech[n])

\* the named deviations the as-built run exercises on this call (for attributing known findings)
MarksOf(e) == IF PreOK(e) /\ e.haslog
              THEN Run(Begin(e.prepar, e.prech, FrameOf(e), PlanOf(e), e.strict, e.asrt)).marks ELSE {}

TInit == l = 1 /\ par = <<>> /\ ch = <<>>
TNext == /\ l <= Len(Trace)
         /\ LET e == Trace[l] IN
              /\ PrintT(ToString(<<"J", l, e.id, Violated(e), Explained(e), Chained(e), MarksOf(e)>>))
              \* re-synchronise on the logged post-state (merged into what is known so far)
              /\ par' = [n \in DOMAIN par \cup DOMAIN e.postpar |-> IF n \in DOMAIN e.postpar THEN e.postpar[n] ELSE par[n]]
              /\ ch' = [n \in DOMAIN ch \cup DOMAIN e.postch |-> IF n \in DOMAIN e.postch THEN e.postch[n] ELSE ch[n]]
         /\ l' = l + 1
TSpec == TInit /\ [][TNext]_tvars
Accepted == TLCGet("stats").diameter - 1 = Len(Trace)
=============================================================================

---------------------------- MODULE NodeOpsProps ----------------------------
(***************************************************************************)
(* Property layer for the structural mutators: the listed properties C01,  *)
(* C02, C03, C16 as predicates over an *observation* of one public call.   *)
(* They are written declaratively and independently of NodeOps!Step, so    *)
(* that (a) TLC can check the as-built interpreter against them, and (b)   *)
(* the judge can evaluate them on observations of the real code.           *)
(*                                                                         *)
(* An observation is a record                                              *)
(*   [k      : "sp" | "dc" | "sc" | "ct",       kind of call               *)
(*    n, v, xs, bad,                             arguments                  *)
(*    plan, strict,                              fault plan, NodeMixin?     *)
(*    prepar, prech, postpar, postch,            forest before / after      *)
(*    exc, src,                                  outcome; ordinal of the    *)
(*                                               hook invocation that raised*)
(*                                               the propagating exception  *)
(*    log ]                                      hook events with snapshots *)
(***************************************************************************)
EXTENDS NodeOps, SequencesExt

Ok == Nil      \* outcome "no exception"

Anc(par, n) == PathSet(par, n) \ {n}           \* proper ancestors


(***************************************************************************)
(* C02: the effect of a successful call, and when a call must be refused.  *)
(***************************************************************************)
IdealSP(par, ch, n, v) ==
  IF par[n] = v THEN [par |-> par, ch |-> ch]
  ELSE LET ch1 == [m \in DOMAIN ch |-> Rm(ch[m], n)] IN
       [par |-> [par EXCEPT ![n] = v],
        ch  |-> IF v = Nil THEN ch1 ELSE [ch1 EXCEPT ![v] = Append(@, n)]]

IdealDC(par, ch, n) ==
  [par |-> [m \in DOMAIN par |-> IF par[m] = n THEN Nil ELSE par[m]],
   ch  |-> [ch EXCEPT ![n] = <<>>]]

IdealSC(par, ch, n, xs) ==
  LET X == ToSet(xs) IN
  [par |-> [m \in DOMAIN par |-> IF m \in X THEN n ELSE IF par[m] = n THEN Nil ELSE par[m]],
   ch  |-> [m \in DOMAIN ch |-> IF m = n THEN xs ELSE SelectSeq(ch[m], LAMBDA y: y \notin X)]]

RefuseSP(par, n, v, strict) ==
  IF v = NonNode THEN (IF strict THEN "TreeError" ELSE "Outside")
  ELSE IF par[n] = v THEN Ok
  ELSE IF v # Nil /\ (v = n \/ n \in PathSet(par, v)) THEN "LoopError"
  ELSE Ok

RefuseSC(par, n, xs, bad, strict) ==
  IF bad THEN "TypeError"
  ELSE IF InSeq(xs, NonNode) /\ ~strict THEN "Outside"
  ELSE IF HasDup(xs) \/ InSeq(xs, NonNode) THEN "TreeError"
  ELSE IF \E i \in 1..Len(xs): xs[i] \in PathSet(par, n) THEN "LoopError"
  ELSE Ok

\* expected outcome and (if the outcome is Ok, or a constructor got half-way) expected forest
Ideal(o) ==
  CASE o.k = "sp" -> LET r == RefuseSP(o.prepar, o.n, o.v, o.strict) IN
                     [exc |-> r, st |-> IF r = Ok THEN IdealSP(o.prepar, o.prech, o.n, o.v)
                                        ELSE [par |-> o.prepar, ch |-> o.prech]]
    [] o.k = "dc" -> [exc |-> Ok, st |-> IdealDC(o.prepar, o.prech, o.n)]
    [] o.k = "sc" -> LET r == RefuseSC(o.prepar, o.n, o.xs, o.bad, o.strict) IN
                     [exc |-> r, st |-> IF r = Ok THEN IdealSC(o.prepar, o.prech, o.n, o.xs)
                                        ELSE [par |-> o.prepar, ch |-> o.prech]]
    [] o.k = "ct" -> \* the constructor arguments behave like the corresponding assignments, in order
                     LET r1 == RefuseSP(o.prepar, o.n, o.v, o.strict) IN
                     IF r1 # Ok THEN [exc |-> r1, st |-> [par |-> o.prepar, ch |-> o.prech]]
                     ELSE LET s1 == IdealSP(o.prepar, o.prech, o.n, o.v) IN
                          IF o.xs = <<>> THEN [exc |-> Ok, st |-> s1]
                          ELSE LET r2 == RefuseSC(s1.par, o.n, o.xs, FALSE, o.strict) IN
                               [exc |-> r2, st |-> IF r2 = Ok THEN IdealSC(s1.par, s1.ch, o.n, o.xs) ELSE s1]

\* no hook raised during the call (a recorded log may be truncated for runs that end in RecursionError, so the outcome counts, too)
\* (... unless the observation is known to have been made with no fault injected at all -- field `sure`, set by the harness
\* for its own replays and histories: then any outcome, RecursionError included, is the outcome of a fault-free call)
FaultFree(o) == /\ \A i \in 1..Len(o.log): ~o.log[i].r
                /\ \/ o.exc \notin {"HookFault", "RecursionError"}
                   \/ ("sure" \in DOMAIN o /\ o.sure /\ o.plan.mode = "none")

C02_OK(o) ==
  (FaultFree(o) /\ Ideal(o).exc # "Outside") =>
     /\ o.exc = Ideal(o).exc
     \* the forest after a *refused* assignment is C03's business, not C02's
     \* (nor is the forest after a constructor whose children= argument is refused)
     /\ o.exc = Ok => (o.postpar = Ideal(o).st.par /\ o.postch = Ideal(o).st.ch)

(***************************************************************************)
(* C03: refused or pre-hook-vetoed calls leave the whole forest untouched. *)
(***************************************************************************)
\* "raises because the request is invalid": one of the library's refusals -- or any other exception from a call that had to
\* be refused while no hook raised (which exception class a refusal uses is C02's business; what it leaves behind is C03's)
Refused(o) == \/ o.exc \in {"TreeError", "LoopError", "TypeError"}
              \/ /\ o.exc \notin {Ok, "HookFault", "RecursionError"}
                 /\ \A i \in 1..Len(o.log): ~o.log[i].r
                 /\ o.k \in {"sp", "dc", "sc"} /\ Ideal(o).exc \notin {Ok, "Outside"}
\* "raises because a pre-hook raised": weakest reading -- every exception raised inside the call
\* came from a pre-hook (a persistent veto can surface as RecursionError, see deviation E)
Vetoed(o)  == /\ o.exc \in {"HookFault", "RecursionError"}
              /\ \E i \in 1..Len(o.log): o.log[i].r
              /\ \A i \in 1..Len(o.log): o.log[i].r => o.log[i].h \in PreHooks
C03_Applies(o) == o.k \in {"sp", "dc", "sc"} /\ (Refused(o) \/ Vetoed(o))
C03_OK(o) == C03_Applies(o) => (o.postpar = o.prepar /\ o.postch = o.prech)

(***************************************************************************)
(* C01: both views agree, no cycles -- after the call and in every state a *)
(* hook could observe; no internal assertion fires.                        *)
(***************************************************************************)
C01_OK(o) ==
  /\ DOMAIN o.postpar = DOMAIN o.prepar
  /\ WellFormed(o.postpar, o.postch)
  /\ \A i \in 1..Len(o.log): WellFormed(o.log[i].par, o.log[i].ch)
  /\ o.exc # "AssertionError"

(***************************************************************************)
(* C16: the hook protocol.                                                 *)
(***************************************************************************)
Ev(h, n, a) == [h |-> h, n |-> n, a |-> a]
Strip(log) == [i \in 1..Len(log) |-> Ev(log[i].h, log[i].n, log[i].a)]

LogSP(par, n, v) ==
  IF par[n] = v THEN <<>>
  ELSE (IF par[n] # Nil THEN <<Ev("pre_detach", n, <<par[n]>>), Ev("post_detach", n, <<par[n]>>)>> ELSE <<>>)
       \o (IF v # Nil THEN <<Ev("pre_attach", n, <<v>>), Ev("post_attach", n, <<v>>)>> ELSE <<>>)

LogDC(par, ch, n) ==
  LET kids == ch[n] IN
  <<Ev("pre_detach_children", n, kids)>>
  \o Flat([i \in 1..Len(kids) |-> LogSP(par, kids[i], Nil)])
  \o <<Ev("post_detach_children", n, kids)>>

LogSC(par, ch, n, xs) ==
  LET par1 == IdealDC(par, ch, n).par IN     \* all former children are detached first
  LogDC(par, ch, n)
  \o <<Ev("pre_attach_children", n, xs)>>
  \o Flat([i \in 1..Len(xs) |-> LogSP(par1, xs[i], n)])
  \o <<Ev("post_attach_children", n, xs)>>

IdealLog(o) ==
  IF Ideal(o).exc \notin {Ok} /\ o.k # "ct" THEN <<>>
  ELSE CASE o.k = "sp" -> LogSP(o.prepar, o.n, o.v)
         [] o.k = "dc" -> LogDC(o.prepar, o.prech, o.n)
         [] o.k = "sc" -> LogSC(o.prepar, o.prech, o.n, o.xs)
         [] o.k = "ct" -> IF RefuseSP(o.prepar, o.n, o.v, o.strict) # Ok THEN <<>>
                          ELSE LET s1 == IdealSP(o.prepar, o.prech, o.n, o.v) IN
                               LogSP(o.prepar, o.n, o.v)
                               \o (IF o.xs = <<>> \/ RefuseSC(s1.par, o.n, o.xs, FALSE, o.strict) # Ok THEN <<>>
                                   ELSE LogSC(s1.par, s1.ch, o.n, o.xs))

\* what a per-node hook must observe
Observes(e) ==
  CASE e.h = "pre_detach" ->
         /\ Len(e.a) = 1 /\ e.n \in DOMAIN e.par /\ e.a[1] \in DOMAIN e.ch
         /\ e.par[e.n] = e.a[1] /\ InSeq(e.ch[e.a[1]], e.n)
    [] e.h \in {"post_detach", "pre_attach"} ->
         /\ e.n \in DOMAIN e.par
         /\ e.par[e.n] = Nil /\ \A m \in DOMAIN e.ch: ~InSeq(e.ch[m], e.n)
    [] e.h = "post_attach" ->
         /\ Len(e.a) = 1 /\ e.n \in DOMAIN e.par /\ e.a[1] \in DOMAIN e.ch
         /\ e.par[e.n] = e.a[1] /\ e.ch[e.a[1]] # <<>> /\ Last(e.ch[e.a[1]]) = e.n
    [] OTHER -> TRUE

FirstRaise(log) == IF \E i \in 1..Len(log): log[i].r
                   THEN CHOOSE i \in 1..Len(log): log[i].r /\ \A j \in 1..(i-1): ~log[j].r
                   ELSE 0

\* forest reached when a parent assignment is stopped by a post hook: the preceding step is done
AfterDetach(par, ch, n) == IdealSP(par, ch, n, Nil)

C16_OK(o) ==
  LET ideal == IdealLog(o)
      L == Strip(o.log)
      fr == FirstRaise(o.log)
      refusedIdeal == Ideal(o).exc \notin {Ok, "Outside"}
  IN
  IF Ideal(o).exc = "Outside" THEN TRUE
  ELSE IF o.k = "sp" THEN
     /\ \A i \in 1..Len(o.log): Observes(o.log[i])
     /\ IF fr = 0 THEN L = ideal                                   \* success, no-op or refused
        ELSE /\ fr = Len(L) /\ Len(L) <= Len(ideal) /\ L = SubSeq(ideal, 1, Len(L))
             /\ o.exc = "HookFault"
             /\ (L[fr].h = "post_detach" =>
                    /\ o.postpar = AfterDetach(o.prepar, o.prech, o.n).par
                    /\ o.postch = AfterDetach(o.prepar, o.prech, o.n).ch)
             /\ (L[fr].h = "post_attach" =>
                    /\ o.postpar = IdealSP(o.prepar, o.prech, o.n, o.v).par
                    /\ o.postch = IdealSP(o.prepar, o.prech, o.n, o.v).ch)
  ELSE \* dc, sc, ct
     IF refusedIdeal /\ o.k # "ct" THEN TRUE                         \* hook sequence of refused calls: not constrained
     ELSE IF fr = 0 /\ o.exc = Ok THEN
             /\ L = ideal
             /\ \A i \in 1..Len(o.log): Observes(o.log[i])
     ELSE IF fr = 0 THEN TRUE                                        \* refused constructor etc.
     ELSE \* aborted by a hook fault: everything up to and including the first fault is the normal protocol
          \* (a constructor whose children= part must be refused: only its parent= part is constrained)
          LET m == IF fr <= Len(ideal) THEN fr ELSE Len(ideal) IN
             /\ (fr > Len(ideal) => refusedIdeal)
             /\ m <= Len(L) /\ SubSeq(L, 1, m) = SubSeq(ideal, 1, m)
             /\ \A i \in 1..m: Observes(o.log[i])
             \* a children deletion has no rollback: the exception propagates and no further hook fires -- in particular
             \* _post_detach_children must not announce a completion that did not happen
             /\ (o.k = "dc" => Len(L) = fr)

(***************************************************************************)
(* Re-entrant hooks (fault plans of mode "act", MC_OpsRe): the hook        *)
(* invocation with ordinal plan.ak makes the public call am.parent = av.   *)
(* The listed properties quantify over hooks that observe and raise; what  *)
(* is stated here is what they imply for hooks that use the library:       *)
(* (`del am.children` for plans of kind "dc"; with plan.ar the hook raises  *)
(* after its call.)                                                        *)
(*  (1) the call made by the hook is an ordinary public call on the forest *)
(*      the hook observes, and C01 C02 C03 C16 hold for it as for any      *)
(*      other call (the interrupted call must have left the forest in the  *)
(*      state its hook protocol promises);                                 *)
(*  (2) if the hook does not interfere with the link in flight (it does    *)
(*      not move the node whose hook is running, and does not move the     *)
(*      target below that node), the interrupted call keeps the forest     *)
(*      well-formed in every later observation and every later per-node    *)
(*      hook still observes what C16 promises.                             *)
(* The observation carries `nest` = [lo, hi: log entries of the nested     *)
(* call, exc: its outcome, par, ch: the forest when it returned].          *)
(***************************************************************************)
Acted(o) == /\ o.plan.mode = "act" /\ o.plan.ak \in 1..Len(o.log)
            /\ o.nest.lo = o.plan.ak + 1 /\ o.nest.hi \in o.plan.ak..Len(o.log)
NestedObs(o) ==
  LET e == o.log[o.plan.ak] IN
  [k |-> o.plan.akind, n |-> o.plan.am, v |-> o.plan.av, xs |-> <<>>, bad |-> FALSE, plan |-> NoFault, strict |-> o.strict,
   prepar |-> e.par, prech |-> e.ch, postpar |-> o.nest.par, postch |-> o.nest.ch, exc |-> o.nest.exc, src |-> 0,
   log |-> SubSeq(o.log, o.nest.lo, o.nest.hi), sure |-> TRUE]
PerNodeHooks == {"pre_detach", "post_detach", "pre_attach", "post_attach"}
NonInterfering(o) ==
  LET e == o.log[o.plan.ak]
      w == o.plan.av
      \* the nodes the hook's call moves
      M == IF o.plan.akind = "sp" THEN {o.plan.am} ELSE ToSet(e.ch[o.plan.am]) IN
  /\ e.h \in PerNodeHooks => (e.n \notin M /\ (w = Nil \/ e.n \notin PathSet(e.par, w)))
  \* with the library's internal assertions switched on, the children setter and deleter additionally re-count
  \* the children list they are working on
  /\ (o.asrt /\ o.k # "sp") => (w # o.n /\ \A x \in M: e.par[x] # o.n)
\* the properties of the nested call that fail, and those of the interrupted call
ReViolated(o) ==
  IF ~Acted(o) THEN {}
  ELSE LET e == o.log[o.plan.ak]
           no == NestedObs(o) IN
       (IF WellFormed(e.par, e.ch)
        THEN (IF ~C01_OK(no) THEN {"C01"} ELSE {}) \cup (IF ~C02_OK(no) THEN {"C02"} ELSE {})
             \cup (IF ~C03_OK(no) THEN {"C03"} ELSE {}) \cup (IF ~C16_OK(no) THEN {"C16"} ELSE {})
        ELSE {})
       \cup (IF NonInterfering(o) /\ WellFormed(o.prepar, o.prech)
             THEN (IF ~C01_OK(o) THEN {"C01"} ELSE {})
                  \cup (IF \E i \in 1..Len(o.log): ~Observes(o.log[i]) THEN {"C16"} ELSE {})
             ELSE {})
Re_OK(o) == ReViolated(o) = {}
=============================================================================

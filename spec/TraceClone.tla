----------------------------- MODULE TraceClone -----------------------------
(***************************************************************************)
(* Judge for copy observations (C19): [id, pre, post, after, n, result,    *)
(* bij, root, mut, leaf, extra]  with pre/post/after = [par, ch, tgt, cls, foo] projections. *)
(* bij is the correspondence original -> copy found by the harness walking *)
(* both structures in lock-step from (n, result).                          *)
(***************************************************************************)
EXTENDS Attrs, TLC, Json, IOUtils
VARIABLE l
Trace == ndJsonDeserialize(IOEnv.TRACE_FILE)
C19_OK(e) ==
  /\ IsCopy(e.pre, e.post, e.n, e.bij, e.result)
  \* mutating the copy (its result node detached) and the original (children of n's root deleted) does not cross over;
  \* nor does extending the copy below one of its leaves (e.mut = "attach": the original was copied before anything read it)
  /\ LET s1 == IdealSP(e.post.par, e.post.ch, e.result, Nil)
         s2 == IF e.mut = "attach" THEN IdealSP(e.post.par, e.post.ch, e.extra, e.leaf) ELSE IdealDC(s1.par, s1.ch, e.root) IN
     e.after.par = s2.par /\ e.after.ch = s2.ch
TInit == l = 1
TNext == l <= Len(Trace) /\ PrintT(ToString(<<"J", l, Trace[l].id, IF C19_OK(Trace[l]) THEN {} ELSE {"C19"}>>)) /\ l' = l + 1
Accepted == TLCGet("stats").diameter - 1 = Len(Trace)
=============================================================================

----------------------------- MODULE TraceRender -----------------------------
(***************************************************************************)
(* Judge for RenderTree observations (C09).  One JSON object per line:     *)
(*  [id, par, ch, s, ci, ml, nl, rows, text]  with rows/text de-rendered   *)
(*  by the harness into segment tokens ("?" for an unknown segment).       *)
(***************************************************************************)
EXTENDS Render, TLC, Json, IOUtils
VARIABLE l
Trace == ndJsonDeserialize(IOEnv.TRACE_FILE)
CiOf(e) == [kind |-> e.ci.kind, hide |-> SetOf(e.ci.hide), key |-> e.ci.key]
C09_OK(e) == LET rows == RowsDef(e.ch, e.s, CiOf(e), e.ml) IN
             /\ e.rows = rows
             /\ (e.hastext => e.text = TextOf(rows, e.nl))
TInit == l = 1
TNext == l <= Len(Trace) /\ PrintT(ToString(<<"J", l, Trace[l].id, IF C09_OK(Trace[l]) THEN {} ELSE {"C09"}>>)) /\ l' = l + 1
Accepted == TLCGet("stats").diameter - 1 = Len(Trace)
=============================================================================

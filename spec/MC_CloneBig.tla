----------------------------- MODULE MC_CloneBig -----------------------------
(***************************************************************************)
(* M6b beyond the exhaustive bounds: pickle / deepcopy of large random     *)
(* trees (BigMin..BigMax nodes; uniform, deep, wide, bushy, a star with    *)
(* hundreds of children, a chain), every class family, up to MaxLinks link *)
(* nodes with drawn targets, drawn entry node and method.  The expected    *)
(* state is the canonical copy CloneDef of MC_Clone; every transition is   *)
(* emitted and replayed like the exhaustive ones.                          *)
(***************************************************************************)
EXTENDS MC_Clone, Randomization

CONSTANTS BigMin, BigMax, Instances, PerShape, MaxDepth

Pick(T, salt) == RandomElement({<<x, salt>> : x \in T})[1]
Weighted(q, i, style) ==
  LET rp == RightPath(q, i - 1)
      w(c) == CASE style = 1 -> (IF c = i - 1 THEN 6 ELSE 1)
                [] style = 2 -> (IF c = q[i - 1] \/ (q[i - 1] = 0 /\ c = i - 1) THEN 8 ELSE 1)
                [] style = 3 -> (IF c = i - 1 \/ c = q[i - 1] THEN 3 ELSE 1)
                [] style = 4 -> (IF c = 1 THEN 8 ELSE 0)
                [] style = 5 -> (IF c = i - 1 THEN 8 ELSE 0)
                [] OTHER -> 1
  IN {t \in (rp \X (1..8)) : t[2] <= w(t[1])}
RECURSIVE Grow(_, _, _, _, _)
Grow(q, i, n, style, salt) ==
  IF i > n THEN q ELSE Grow([q EXCEPT ![i] = Pick(Weighted(q, i, style), <<salt, i>>)[1]], i + 1, n, style, salt)

FamSeq == <<"node", "light", "anynode", "links", "mixin", "lightsub", "linksown", "falsy">>
\* link nodes: the last MaxLinks nodes of a link family point at drawn earlier nodes (so targets exist before their links)
Targets(n, f, salt) == [i \in 1..n |-> IF HasLinks(f) /\ i > n - MaxLinks /\ i > 1 THEN Pick(1..(i - 1), <<salt, i>>) ELSE 0]

BigInit == \E j \in 1..Instances:
             \* (copying recurses once per level: chains stay below MaxDepth levels)
             /\ k = IF j % 6 = 4 THEN BigMax - ((j \div 6) % 10) ELSE IF j % 6 = 5 THEN MaxDepth - ((j \div 6) % 10) ELSE Pick(BigMin..BigMax, j)
             /\ p = Grow([i \in 1..k |-> 0], 2, k, j % 6, j)
             \* (the stars alternate between the two mixin families: hundreds of children below one node of either)
             /\ fam = IF j % 6 = 4 THEN (IF (j \div 6) % 2 = 0 THEN "light" ELSE "node") ELSE FamSeq[(j % 8) + 1]
             /\ tg = Targets(k, fam, j)
             /\ zlast = [q |-> "init"]

Leaves2 == {n \in Nodes : \A m \in Nodes : p[m] # n}
BigNext == /\ UNCHANGED <<k, p, tg, fam>>
           /\ \E i \in 1..PerShape: \E n \in {CASE i % 3 = 0 -> 1 [] i % 3 = 1 -> Pick(Leaves2, <<i, 1>>) [] OTHER -> Pick(Nodes, <<i, 2>>)}:
              \E how \in {Pick(Hows(fam), <<i, 3>>)}: \E st \in {CloneDef(n)}:
                zlast' = [q |-> "clone", n |-> n, how |-> how, closure |-> Closure(Par, Ch, tg, n), post |-> st, after |-> After(st, n)]
=============================================================================

------------------------------ MODULE Resolver ------------------------------
(***************************************************************************)
(* anytree.resolver.Resolver: get (C07) and glob (C08).                    *)
(*                                                                         *)
(* Strings are sequences of one-character strings; a path/pattern is a     *)
(* sequence of components (the harness joins them with the class-level     *)
(* separator, so leading / trailing / doubled separators are empty         *)
(* components).  `names[n]` is str(getattr(n, pathattr, None)).            *)
(*                                                                         *)
(* Property layer: Get, Match, ReachSet, RelaxedOK, StrictOK, DeadEnd.     *)
(* As-built layer: AGlob (the recursion of Resolver.__glob/__find with its *)
(* two error-swallowing sites and the `**` de-duplication) and the model   *)
(* of the shared compiled-pattern cache.                                   *)
(***************************************************************************)
EXTENDS Tree

Upper(c) == CASE c = "a" -> "A" [] c = "b" -> "B" [] c = "c" -> "C" [] c = "d" -> "D"
              [] c = "r" -> "R" [] c = "x" -> "X" [] c = "z" -> "Z" [] OTHER -> c
Norm(s, ic) == IF ic THEN [i \in 1..Len(s) |-> Upper(s[i])] ELSE s
Cmp(name, pat, ic) == Norm(name, ic) = Norm(pat, ic)          \* Resolver.__cmp

DD == <<".", ".">>
Dot == <<".">>
Rec == <<"*", "*">>
IsWild(pt) == \E i \in 1..Len(pt): pt[i] \in {"*", "?"}       \* Resolver.is_wildcard
IsStay(c) == c = <<>> \/ c = Dot
IsLiteral(c) == ~IsStay(c) /\ c # DD /\ ~IsWild(c)

\* '*' any run of characters, '?' exactly one, every other character only itself; whole name anchored
RECURSIVE M(_, _, _, _)
M(nm, i, pt, j) == IF j > Len(pt) THEN i > Len(nm)
                   ELSE IF pt[j] = "*" THEN \E q \in i..(Len(nm) + 1): M(nm, q, pt, j + 1)
                   ELSE i <= Len(nm) /\ (pt[j] = "?" \/ pt[j] = nm[i]) /\ M(nm, i + 1, pt, j + 1)
Match(nm, pt, ic) == M(Norm(nm, ic), 1, Norm(pt, ic), 1)

OkR(v) == [err |-> "none", val |-> v]
ErrR(e) == [err |-> e, val |-> <<>>]
IsAbs(cs) == Len(cs) >= 2 /\ cs[1] = <<>>

(****************************** C07: get ***********************************)
\* results of get: the node, or the error class together with its payload -- the node at which the *first* failing
\* component was looked up (ResolverError.node) and that component (ResolverError.child; empty for Root/ResolverError)
OkG(v) == [err |-> "none", val |-> v, at |-> <<>>, comp |-> <<>>]
ErrG(e, n, c) == [err |-> e, val |-> <<>>, at |-> <<n>>, comp |-> c]
RECURSIVE GetFrom(_, _, _, _, _, _)
GetFrom(par, ch, names, n, cs, ic) ==
  IF cs = <<>> THEN OkG(<<n>>)
  ELSE LET c == Head(cs) IN
       IF c = DD THEN (IF par[n] = Nil THEN ErrG("RootResolverError", n, <<>>) ELSE GetFrom(par, ch, names, par[n], Tail(cs), ic))
       ELSE IF IsStay(c) THEN GetFrom(par, ch, names, n, Tail(cs), ic)
       ELSE LET ks == SelectSeq(ch[n], LAMBDA x: Cmp(names[x], c, ic)) IN
            IF ks = <<>> THEN ErrG("ChildResolverError", n, c) ELSE GetFrom(par, ch, names, ks[1], Tail(cs), ic)

GetStrict(par, ch, names, start, cs, ic) ==
  IF IsAbs(cs) THEN
     LET root == RootOf(par, start) IN
     IF cs[2] = <<>> THEN ErrG("ResolverError", root, <<>>)                           \* root node missing
     ELSE IF ~Cmp(names[root], cs[2], ic) THEN ErrG("ResolverError", root, <<>>)      \* unknown root node
     ELSE GetFrom(par, ch, names, root, SubSeq(cs, 3, Len(cs)), ic)
  ELSE GetFrom(par, ch, names, start, cs, ic)
\* relax=True: None (an empty val) in exactly the error cases, never raises
Get(par, ch, names, start, cs, ic, relax) ==
  LET r == GetStrict(par, ch, names, start, cs, ic) IN IF relax /\ r.err # "none" THEN OkG(<<>>) ELSE r

\* the two spellings of a node the property names
AbsPathOf(par, names, n) == <<<<>>>> \o [i \in 1..Len(PathTo(par, n)) |-> names[PathTo(par, n)[i]]]
RelPathOf(par, names, m, n) == LET w == Walk(par, m, n) IN
  [i \in 1..Len(w.up) |-> DD] \o [i \in 1..Len(w.down) |-> names[w.down[i]]]
SibUnique(ch, names, ic) == \A n \in DOMAIN ch: \A i, j \in 1..Len(ch[n]): i # j => Norm(names[ch[n][i]], ic) # Norm(names[ch[n][j]], ic)
\* names that can be spelled as a literal component: non-empty, not "." or "..", free of the separator
Spellable(names, sep) == \A n \in DOMAIN names: names[n] # <<>> /\ names[n] # Dot /\ names[n] # DD /\ ~InSeq(names[n], sep)

(****************************** C08: glob, property layer ******************)
StepSet(par, ch, names, S, c, ic) ==
  IF c = DD THEN {par[x] : x \in {y \in S : par[y] # Nil}}
  ELSE IF IsStay(c) THEN S
  ELSE IF c = Rec THEN UNION {SetOf(PreOrder(ch, x)) : x \in S}
  ELSE UNION {{y \in SetOf(ch[x]) : Match(names[y], c, ic)} : x \in S}
RECURSIVE ReachFrom(_, _, _, _, _, _)
ReachFrom(par, ch, names, S, cs, ic) ==
  IF cs = <<>> THEN S ELSE ReachFrom(par, ch, names, StepSet(par, ch, names, S, Head(cs), ic), Tail(cs), ic)
\* start set and remaining components (an absolute pattern restarts at the root, whose name must match)
StartSet(par, names, start, cs, ic) ==
  IF IsAbs(cs) THEN (IF cs[2] # <<>> /\ Match(names[RootOf(par, start)], cs[2], ic) THEN {RootOf(par, start)} ELSE {})
  ELSE {start}
Rest(cs) == IF IsAbs(cs) THEN SubSeq(cs, 3, Len(cs)) ELSE cs
ReachSet(par, ch, names, start, cs, ic) == ReachFrom(par, ch, names, StartSet(par, names, start, cs, ic), Rest(cs), ic)

HasRec(cs) == \E i \in 1..Len(cs): cs[i] = Rec
HasDD(cs) == \E i \in 1..Len(cs): cs[i] = DD
\* "no '..' follows a name or wildcard component" (weakest reading: anywhere after)
DDAfterName(cs) == \E i, j \in 1..Len(cs): i < j /\ cs[j] = DD /\ ~IsStay(cs[i]) /\ cs[i] # DD

RelaxedOK(par, ch, names, start, cs, ic, r) ==
  LET reach == ReachSet(par, ch, names, start, cs, ic) IN
  /\ r.err = "none"
  /\ SetOf(r.val) = reach
  /\ ((~HasRec(cs) /\ ~HasDD(cs)) => r.val = SelectSeq(PreOrder(ch, RootOf(par, start)), LAMBDA x: x \in reach))
  /\ (~DDAfterName(Rest(cs)) => ~HasDup(r.val))

\* a genuine dead end: a literal component without matching child at a reached node, a wrong or missing root
\* component, or '..' at a root
DeadEnd(par, ch, names, start, cs, ic) ==
  \/ (IsAbs(cs) /\ StartSet(par, names, start, cs, ic) = {})
  \/ LET rest == Rest(cs) IN
     \E i \in 1..Len(rest):
        LET S == ReachFrom(par, ch, names, StartSet(par, names, start, cs, ic), SubSeq(rest, 1, i - 1), ic) IN
        \E x \in S: \/ (rest[i] = DD /\ par[x] = Nil)
                    \/ (IsLiteral(rest[i]) /\ ~\E y \in SetOf(ch[x]): Match(names[y], rest[i], ic))
ResolverErrors == {"ResolverError", "RootResolverError", "ChildResolverError"}
WildFree(cs) == \A i \in 1..Len(cs): ~IsWild(cs[i])
\* strict: the same list as relaxed mode returned (rl), or a ResolverError at a genuine dead end;
\* agrees with get on wildcard-free patterns over sibling-unique names
StrictOK(par, ch, names, start, cs, ic, r, rl) ==
  /\ \/ (r.err = "none" /\ r.val = rl.val)
     \/ (r.err \in ResolverErrors /\ DeadEnd(par, ch, names, start, cs, ic))
  /\ (WildFree(cs) /\ SibUnique(ch, names, ic)) =>
        LET g == GetStrict(par, ch, names, start, cs, ic) IN
        IF g.err = "none" THEN r.err = "none" /\ r.val # <<>> /\ r.val[1] = g.val[1]
        ELSE r.err = g.err

(****************************** C08: glob, as-built ************************)
RECURSIVE DedupAppend(_, _)
DedupAppend(acc, xs) == IF xs = <<>> THEN acc
                        ELSE DedupAppend(IF InSeq(acc, Head(xs)) THEN acc ELSE Append(acc, Head(xs)), Tail(xs))
RECURSIVE AG(_, _, _, _, _, _, _)
RECURSIVE AFind(_, _, _, _, _, _, _, _, _)
RECURSIVE ARec(_, _, _, _, _, _, _, _)
\* Resolver.__glob(node, parts)
AG(par, ch, names, i, cs, ic, relax) ==
  IF cs = <<>> THEN OkR(<<i>>)
  ELSE LET c == Head(cs) rest == Tail(cs) IN
       IF c = DD THEN (IF par[i] = Nil THEN (IF relax THEN OkR(<<>>) ELSE ErrR("RootResolverError"))
                       ELSE AG(par, ch, names, par[i], rest, ic, relax))
       ELSE IF IsStay(c) THEN AG(par, ch, names, i, rest, ic, relax)
       ELSE IF c = Rec THEN ARec(par, ch, names, PreOrder(ch, i), rest, <<>>, ic, relax)
       ELSE LET r == AFind(par, ch, names, ch[i], c, rest, <<>>, ic, relax) IN
            \* (pinned commit: raised whenever r.val = <<>>, also when the literal did match a child and only the
            \*  rest of the pattern came up empty -- finding C08-literal, repaired by a fix: commit)
            IF r.err = "none" /\ r.val = <<>> /\ ~IsWild(c) /\ ~relax
               /\ ~\E j \in 1..Len(ch[i]): Match(names[ch[i][j]], c, ic)
            THEN ErrR("ChildResolverError") ELSE r
\* Resolver.__find(node, pat, remainder): a ResolverError from below is swallowed iff pat is a wildcard
AFind(par, ch, names, ks, c, rest, acc, ic, relax) ==
  IF ks = <<>> THEN OkR(acc)
  ELSE LET x == Head(ks) IN
       IF ~Match(names[x], c, ic) THEN AFind(par, ch, names, Tail(ks), c, rest, acc, ic, relax)
       ELSE IF rest = <<>> THEN AFind(par, ch, names, Tail(ks), c, rest, Append(acc, x), ic, relax)
       ELSE LET r == AG(par, ch, names, x, rest, ic, relax) IN
            IF r.err = "none" THEN AFind(par, ch, names, Tail(ks), c, rest, acc \o r.val, ic, relax)
            ELSE IF IsWild(c) THEN AFind(par, ch, names, Tail(ks), c, rest, acc, ic, relax)
            ELSE r
\* the `**` loop: only ChildResolverError is swallowed; matches are de-duplicated
ARec(par, ch, names, subs, rest, acc, ic, relax) ==
  IF subs = <<>> THEN OkR(acc)
  ELSE LET r == AG(par, ch, names, Head(subs), rest, ic, relax) IN
       IF r.err = "none" THEN ARec(par, ch, names, Tail(subs), rest, DedupAppend(acc, r.val), ic, relax)
       ELSE IF r.err = "ChildResolverError" THEN ARec(par, ch, names, Tail(subs), rest, acc, ic, relax)
       ELSE r
\* Resolver.glob with Resolver.__start
AGlob(par, ch, names, start, cs, ic, relax) ==
  IF IsAbs(cs) THEN
     LET root == RootOf(par, start) IN
     IF cs[2] = <<>> \/ ~Match(names[root], cs[2], ic) THEN (IF relax THEN OkR(<<>>) ELSE ErrR("ResolverError"))
     ELSE AG(par, ch, names, root, SubSeq(cs, 3, Len(cs)), ic, relax)
  ELSE AG(par, ch, names, start, cs, ic, relax)

(****************************** the shared pattern cache *******************)
\* Resolver._match_cache maps the key (pattern, ignorecase) to the regex compiled from (pattern, flags):
\* modelled as a function key -> <<pattern, flag>> it was compiled from; cleared when full.
CacheLookup(cache, pat, ic, maxcache) ==
  LET key == <<pat, ic>> IN
  IF key \in DOMAIN cache THEN [cache |-> cache, compiled |-> cache[key]]
  ELSE LET base == IF Cardinality(DOMAIN cache) >= maxcache THEN <<>> ELSE cache
           new == [x \in DOMAIN base \cup {key} |-> IF x = key THEN <<pat, ic>> ELSE base[x]]
       IN [cache |-> new, compiled |-> <<pat, ic>>]
\* the reason the cache is unobservable: every entry is the regex of its own key
CacheSound(cache) == \A key \in DOMAIN cache: cache[key] = key
=============================================================================

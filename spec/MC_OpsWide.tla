------------------------------ MODULE MC_OpsWide ------------------------------
(***************************************************************************)
(* The mutators on a node with *hundreds* of children (Wide >= 258), where *)
(* the small-step interpreter of NodeOps is unaffordable (minutes per call *)
(* because every hook log entry carries a snapshot of the forest): the     *)
(* expected outcome and forest come from the *property layer* alone --     *)
(* NodeOpsProps!Ideal: MustRefuse and IdealEffect of C02, "unchanged" for  *)
(* refused calls (C03) -- for fault-free calls that do not touch a listed  *)
(* deviation (nothing is stolen from another parent before a refusal).     *)
(* Replayed without hook logs ("quiet"): outcome and final forest, under   *)
(* both settings of the assertion switch, for both mixin families.         *)
(***************************************************************************)
EXTENDS NodeOpsProps, SequencesExt, TLC, Json

CONSTANTS Node, Wide
VARIABLES parent, children, zlast
vars == <<parent, children, zlast>>
View == 0

Ord == SetToSeq(Node)
Root == Ord[1]
Hub == Ord[2]
Kids == SubSeq(Ord, 3, Wide + 2)
Spare == SubSeq(Ord, Wide + 3, Len(Ord))

Init == /\ parent = [n \in Node |-> IF n = Hub THEN Root ELSE IF InSeq(Kids, n) THEN Hub ELSE Nil]
        /\ children = [n \in Node |-> IF n = Root THEN <<Hub>> ELSE IF n = Hub THEN Kids ELSE <<>>]
        /\ zlast = [k |-> "init"]

SC(n, xs) == [k |-> "sc", n |-> n, v |-> Nil, xs |-> xs]
SP(n, v) == [k |-> "sp", n |-> n, v |-> v, xs |-> <<>>]
DC(n) == [k |-> "dc", n |-> n, v |-> Nil, xs |-> <<>>]
Calls ==
  {SC(Hub, Rev(Kids)), SC(Hub, Kids), SC(Hub, Kids \o <<Spare[1]>>), SC(Hub, Tail(Kids)),
   SC(Spare[1], Kids),                                    \* another node takes all of them
   SC(Spare[1], SubSeq(Kids, 1, 257)), SC(Spare[1], SubSeq(Kids, 1, 256)),
   SC(Hub, <<Spare[1], Root>>), SC(Hub, <<Spare[1], Hub>>),   \* refused half-way (a loop after one attach): everything restored
   SC(Hub, <<Spare[1], Spare[1]>>),                       \* refused up front
   SC(Hub, Kids \o <<Kids[1]>>),                          \* a duplicate at the very end of a long list
   SC(Hub, <<Spare[1], Spare[2]>>), SC(Hub, <<>>),
   DC(Hub),
   SP(Spare[1], Hub), SP(Kids[1], Nil), SP(Kids[Wide \div 2], Nil), SP(Kids[Wide], Nil), SP(Kids[257], Nil), SP(Kids[258], Spare[1]),
   SP(Hub, Kids[Wide]), SP(Root, Kids[Wide])}             \* loops below the last child

Next == \E c \in Calls:
          LET o0 == [k |-> c.k, n |-> c.n, v |-> c.v, xs |-> c.xs, bad |-> FALSE, strict |-> TRUE, prepar |-> parent, prech |-> children]
              id == Ideal(o0) IN
          /\ parent' = id.st.par /\ children' = id.st.ch
          /\ zlast' = [k |-> c.k, n |-> c.n, v |-> c.v, xs |-> c.xs, bad |-> FALSE, plan |-> NoFault, strict |-> TRUE, asrt |-> FALSE,
                       prepar |-> parent, prech |-> children, postpar |-> id.st.par, postch |-> id.st.ch,
                       exc |-> id.exc, src |-> 0, log |-> <<>>, marks |-> {}, pcs |-> {}]

\* the ideal effect keeps the forest well-formed (C01), and the observation satisfies the property predicates it was built from
Thm_Wide == [][WellFormed(zlast'.postpar, zlast'.postch) /\ C02_OK(zlast') /\ C03_OK(zlast')]_vars

Emit == PrintT(ToJson([o |-> zlast', c03 |-> TRUE, c03a |-> TRUE, c02 |-> TRUE, c16 |-> TRUE, c01 |-> TRUE]))
=============================================================================

----------------------------- MODULE MC_OpsSmall -----------------------------
(***************************************************************************)
(* Small-step view of the mutators (C01): the same interpreter as MC_Ops,  *)
(* but every Step is a TLC transition, so the invariants are evaluated in  *)
(* every intermediate configuration -- in particular in every state a      *)
(* notification hook can observe and in which it may raise.                *)
(*   Idle:  stk = <<>>  -- Begin chooses a call and a fault plan           *)
(*   Busy:  c' = Step(c)                                                   *)
(***************************************************************************)
EXTENDS NodeOpsProps, TLC

CONSTANTS Node, MaxLen, FaultMode, Strict, Asrt, WithCtor

VARIABLE c
vars == <<c>>
\* the hook log does not influence the interpreter: hidden from the fingerprint
View == [par |-> c.par, ch |-> c.ch, stk |-> c.stk, exc |-> c.exc, src |-> c.src, hc |-> c.hc, fp |-> c.fp,
         marks |-> c.marks, par0 |-> c.par0]
Sym == Permutations(Node)

SeqsOver(S, k) == UNION {[1..j -> S] : j \in 0..k}
Calls(par, ch) ==
  {FrSP(n, v) : n \in Node, v \in Node \cup {Nil}} \cup {FrDC(n) : n \in Node}
  \cup {FrSC(n, xs) : n \in Node, xs \in SeqsOver(Node, MaxLen)}
  \cup (IF WithCtor
        THEN UNION {{FrCT(n, v, xs) : v \in (Node \ {n}) \cup {Nil}, xs \in SeqsOver(Node \ {n}, MaxLen)}
                    : n \in {m \in Node : par[m] = Nil /\ ch[m] = <<>>}}
        ELSE {})
PersistKinds == {{k} : k \in HookKinds} \cup {{"pre_detach", "pre_attach"}}
MaxHooks == 4 * MaxLen + 10
Plans == {NoFault}
         \cup (IF FaultMode >= 1 THEN {Once({k}) : k \in 1..MaxHooks} ELSE {})
         \cup (IF FaultMode >= 2 THEN {Persist(K, Node) : K \in PersistKinds} ELSE {})

Idle(par, ch) == [par |-> par, ch |-> ch, stk |-> <<>>, exc |-> Nil, src |-> 0, log |-> <<>>, hc |-> 0, fp |-> NoFault,
                  marks |-> {}, par0 |-> par, strict |-> Strict, asrt |-> Asrt, pcs |-> {}]
Init == c = Idle([n \in Node |-> Nil], [n \in Node |-> <<>>])
BeginCall == c.stk = <<>> /\ \E fr \in Calls(c.par, c.ch), fp \in Plans: c' = Begin(c.par, c.ch, fr, fp, Strict, Asrt)
DoStep == c.stk # <<>> /\ c' = Step(c)
Next == BeginCall \/ DoStep

Inv_C01 == WellFormed(c.par, c.ch)                  \* in every configuration, also mid-call
Inv_Stack == Len(c.stk) <= MaxStack
Inv_NoAssertion == c.exc # "AssertionError"         \* with Asrt = TRUE: no internal assertion ever fires
Inv_Outcome == c.exc \in {Nil, "TreeError", "LoopError", "TypeError", "HookFault", "RecursionError"}
\* a hook observes a well-formed forest (every logged snapshot)
Inv_HookViews == \A i \in 1..Len(c.log): WellFormed(c.log[i].par, c.log[i].ch)
=============================================================================

------------------------------ MODULE NodeOps ------------------------------
(***************************************************************************)
(* As-built operational model of the three structural mutators of anytree  *)
(* (anytree/node/nodemixin.py and lightnodemixin.py, which differ only in  *)
(* the argument type checks, modelled by the flag `strict`).               *)
(*                                                                         *)
(* A mutator call is a deterministic interpreter configuration `c` and a   *)
(* total function Step(c) with one CASE arm per program point of the code. *)
(* The eight user-overridable notification hooks are the only points at    *)
(* which foreign code runs; a fault plan chosen when the call begins says  *)
(* which hook invocations raise.                                           *)
(*                                                                         *)
(* All operators take the forest as explicit arguments (par, ch), so that  *)
(* the same definitions serve the model-checking specs, the trace specs    *)
(* and the judge (which evaluates them on data observed from real code).   *)
(***************************************************************************)
EXTENDS Base

CONSTANTS NonNode,    \* an argument that is not a tree node (strict kinds refuse it)
          MaxStack    \* bound of the Python call stack (frames of mutator calls)


\* n and its ancestors. Fuel-bounded so that it terminates on corrupt (cyclic) observed data.
RECURSIVE AncF(_, _, _)
AncF(par, n, k) == IF n = Nil \/ k = 0 \/ n \notin DOMAIN par THEN {}
                   ELSE {n} \cup AncF(par, par[n], k - 1)
PathSet(par, n) == AncF(par, n, Cardinality(DOMAIN par) + 1)

HookKinds == {"pre_detach", "post_detach", "pre_attach", "post_attach",
              "pre_detach_children", "post_detach_children",
              "pre_attach_children", "post_attach_children"}
PreHooks == {"pre_detach", "pre_attach", "pre_detach_children", "pre_attach_children"}

(***************************************************************************)
(* Fault plans.  mode "none"; mode "once": the hook invocations whose      *)
(* ordinal (1-based, counted over the whole call) is in ks raise; mode     *)
(* "persist": every invocation of a kind in `kinds` on a node in `nodes`   *)
(* raises (a read-only / validating class).  All four fields are always    *)
(* present so that plans are homogeneous records (JSON).                   *)
(***************************************************************************)
NoFault == [mode |-> "none", ks |-> {}, kinds |-> {}, nodes |-> {}]
Once(K) == [mode |-> "once", ks |-> K, kinds |-> {}, nodes |-> {}]
Persist(K, S) == [mode |-> "persist", ks |-> {}, kinds |-> K, nodes |-> S]

\* mode "act" (re-entrant hooks, MC_OpsRe): the hook invocation with ordinal ak does not raise but itself makes the public
\* call `am.parent = av` -- hooks are ordinary methods and may use the library (docs: "replace" or "evict" semantics).
\* akind "sp": `am.parent = av`; akind "dc": `del am.children` (av = Nil).  ar: after its call the hook raises (a veto by a hook
\* that has already changed something).
Acting(k, m, w, kind, raises) ==
  [mode |-> "act", ks |-> {}, kinds |-> {}, nodes |-> {}, ak |-> k, am |-> m, av |-> w, akind |-> kind, ar |-> raises]

Raises(fp, kind, n, hc) ==
  CASE fp.mode = "none"    -> FALSE
    [] fp.mode = "once"    -> hc \in fp.ks
    [] fp.mode = "persist" -> kind \in fp.kinds /\ n \in fp.nodes
    [] fp.mode = "act"     -> fp.ar /\ hc = fp.ak

NestedFrame(kind, n, v) ==     \* = FrSP(n, v) / FrDC(n), defined below
  [pc |-> IF kind = "sp" THEN "sp_entry" ELSE "dc_entry", n |-> n, v |-> v, old |-> Nil, xs |-> <<>>, olds |-> <<>>, i |-> 0,
   saved |-> Nil, savedsrc |-> 0, bad |-> FALSE]
NoNest == [lo |-> 0, hi |-> 0, exc |-> Nil, par |-> <<>>, ch |-> <<>>]
RECURSIVE Run(_)
\* The call made by an acting hook runs to completion on top of the frames of the interrupted call (its hook events are
\* appended to the same log, its exception -- if any -- propagates out of the hook into the interrupted call);
\* `nest` remembers which log entries belong to it and what it left behind.
Nested(c, fr) ==
  LET sub == Run([c EXCEPT !.stk = <<fr>>]) IN
  [sub EXCEPT !.stk = c.stk,
              !.nest = [lo |-> c.hc + 1, hi |-> sub.hc, exc |-> sub.exc, par |-> sub.par, ch |-> sub.ch]]

\* Invoke a hook: log the event with a snapshot of the whole forest (what the hook can
\* observe), count it, and set the exception in flight iff the plan says it raises.
Hook(c, kind, n, arg) ==
  LET hc == c.hc + 1
      r  == Raises(c.fp, kind, n, hc)
      ev == [h |-> kind, n |-> n, a |-> arg, par |-> c.par, ch |-> c.ch, r |-> r]
      acts == c.fp.mode = "act" /\ c.fp.ak = hc
      c0 == [c EXCEPT !.hc = hc, !.log = Append(@, ev)]
      c1 == IF acts THEN Nested(c0, NestedFrame(c.fp.akind, c.fp.am, c.fp.av)) ELSE c0
  IN \* (an exception of the nested call propagates; otherwise the hook raises if the plan says so)
     IF r /\ c1.exc = Nil THEN [c1 EXCEPT !.exc = "HookFault", !.src = hc] ELSE c1

Mark(c, m) == [c EXCEPT !.marks = @ \cup {m}]
Top(c) == c.stk[Len(c.stk)]
Pop(c) == [c EXCEPT !.stk = SubSeq(@, 1, Len(@) - 1)]
SetTop(c, f) == [c EXCEPT !.stk[Len(c.stk)] = f]
Push(c, f) == IF Len(c.stk) >= MaxStack THEN [c EXCEPT !.exc = "RecursionError", !.src = 0]
              ELSE [c EXCEPT !.stk = Append(@, f)]
Goto(c, pc) == SetTop(c, [Top(c) EXCEPT !.pc = pc])
Raise(c, e) == Pop([c EXCEPT !.exc = e, !.src = 0])

Frame(pc, n, v, xs, bad) ==
  [pc |-> pc, n |-> n, v |-> v, old |-> Nil, xs |-> xs, olds |-> <<>>, i |-> 0,
   saved |-> Nil, savedsrc |-> 0, bad |-> bad]
FrSP(n, v)   == Frame("sp_entry", n, v, <<>>, FALSE)    \* n.parent = v
FrDC(n)      == Frame("dc_entry", n, Nil, <<>>, FALSE)  \* del n.children
FrSC(n, xs)  == Frame("sc_entry", n, Nil, xs, FALSE)    \* n.children = xs
FrSCBad(n)   == Frame("sc_entry", n, Nil, <<>>, TRUE)   \* n.children = <not iterable>
FrCT(n, v, xs) == Frame("ct_entry", n, v, xs, FALSE)    \* n = cls(parent=v, children=xs)

(***************************************************************************)
(* One step of the interpreter.  Program points are named after the code;  *)
(* line numbers refer to anytree/node/nodemixin.py at the pinned commit.   *)
(***************************************************************************)
Step(c) ==
  LET f == Top(c) IN
  CASE f.pc = "sp_entry" ->                                    \* [124-136]
         IF c.strict /\ f.v = NonNode THEN Raise(c, "TreeError")
         ELSE LET old == c.par[f.n] IN
         IF old = f.v THEN Pop(c)                                \* `parent is not value`
         ELSE IF f.v # Nil /\ (f.v = f.n \/ f.n \in PathSet(c.par, f.v))
              THEN Raise(c, "LoopError")                          \* __check_loop [137-144]
         ELSE SetTop(c, [f EXCEPT !.pc = "sp_pre_detach", !.old = old])
    [] f.pc = "sp_pre_detach" ->                                \* __detach [146-149]
         IF f.old = Nil THEN Goto(c, "sp_pre_attach")
         ELSE LET c2 == Hook(c, "pre_detach", f.n, <<f.old>>) IN
              IF c2.exc # Nil THEN Pop(c2) ELSE Goto(c2, "sp_do_detach")
    [] f.pc = "sp_do_detach" ->                                 \* ATOMIC [150-156]
         IF c.asrt /\ ~InSeq(c.ch[f.old], f.n) THEN Raise(c, "AssertionError")
         ELSE Goto([c EXCEPT !.ch[f.old] = Rm(@, f.n), !.par[f.n] = Nil], "sp_post_detach")
    [] f.pc = "sp_post_detach" ->                               \* [157]
         LET c2 == Hook(c, "post_detach", f.n, <<f.old>>) IN
         IF c2.exc # Nil THEN Pop(c2) ELSE Goto(c2, "sp_pre_attach")
    [] f.pc = "sp_pre_attach" ->                                \* __attach [159-162]
         IF f.v = Nil THEN Pop(c)
         ELSE LET c2 == Hook(c, "pre_attach", f.n, <<f.v>>) IN
              IF c2.exc # Nil THEN Pop(IF f.old # Nil THEN Mark(c2, "A") ELSE c2)
              ELSE Goto(c2, "sp_do_attach")
    [] f.pc = "sp_do_attach" ->                                 \* ATOMIC [163-169]
         IF c.asrt /\ InSeq(c.ch[f.v], f.n) THEN Raise(c, "AssertionError")
         ELSE Goto([c EXCEPT !.ch[f.v] = Append(@, f.n), !.par[f.n] = f.v], "sp_post_attach")
    [] f.pc = "sp_post_attach" ->                               \* [170]
         Pop(Hook(c, "post_attach", f.n, <<f.v>>))
    \* ---- del n.children                                        [262-271]
    [] f.pc = "dc_entry" ->
         LET kids == c.ch[f.n]
             c2 == Hook(c, "pre_detach_children", f.n, kids) IN
         IF c2.exc # Nil THEN Pop(c2)
         \* `for child in self.children`: the list is read again after the hook (an acting hook may have changed it);
         \* the hooks get the list read before
         ELSE SetTop(c2, [f EXCEPT !.pc = "dc_loop", !.xs = c2.ch[f.n], !.olds = kids, !.i = 1])
    [] f.pc = "dc_loop" ->
         IF c.exc # Nil THEN Pop(IF f.i > 2 THEN Mark(c, "B") ELSE c)
         ELSE IF f.i > Len(f.xs) THEN Goto(c, "dc_post")
         ELSE Push(SetTop(c, [f EXCEPT !.i = @ + 1]), FrSP(f.xs[f.i], Nil))
    [] f.pc = "dc_post" ->
         IF c.exc # Nil THEN Pop(c)
         ELSE IF c.asrt /\ Len(c.ch[f.n]) # 0 THEN Raise(c, "AssertionError")
         ELSE Pop(Hook(c, "post_detach_children", f.n, f.olds))
    \* ---- n.children = xs                                       [243-260]
    [] f.pc = "sc_entry" ->
         IF f.bad THEN Raise(c, "TypeError")                     \* tuple(children)
         ELSE IF (c.strict /\ InSeq(f.xs, NonNode)) \/ HasDup(f.xs)
              THEN Raise(c, "TreeError")                          \* __check_children
         ELSE Push(SetTop(c, [f EXCEPT !.pc = "sc_after_del", !.olds = c.ch[f.n]]), FrDC(f.n))
    [] f.pc = "sc_after_del" ->                                 \* `del self.children` is outside the try
         IF c.exc # Nil THEN Pop(c)
         ELSE LET c2 == Hook(c, "pre_attach_children", f.n, f.xs) IN
              IF c2.exc # Nil THEN Goto(c2, "sc_handler")
              ELSE SetTop(c2, [f EXCEPT !.pc = "sc_loop", !.i = 1])
    [] f.pc = "sc_loop" ->
         IF c.exc # Nil THEN Goto(c, "sc_handler")
         ELSE IF f.i > Len(f.xs) THEN Goto(c, "sc_post")
         ELSE Push(SetTop(c, [f EXCEPT !.i = @ + 1]), FrSP(f.xs[f.i], f.n))
    [] f.pc = "sc_post" ->
         IF c.exc # Nil THEN Goto(c, "sc_handler")
         ELSE LET c2 == Hook(c, "post_attach_children", f.n, f.xs) IN
              IF c2.exc # Nil THEN Goto(c2, "sc_handler")
              ELSE IF c.asrt /\ Len(c2.ch[f.n]) # Len(f.xs) THEN Goto([c2 EXCEPT !.exc = "AssertionError", !.src = 0], "sc_handler")
              ELSE Pop(c2)
    [] f.pc = "sc_handler" ->                                   \* except Exception: self.children = old_children
         LET stolen == \E j \in 1..Len(f.xs): j < f.i /\ c.par0[f.xs[j]] \notin {Nil, f.n}
                                               /\ c.par[f.xs[j]] # c.par0[f.xs[j]]
             cm == IF stolen THEN Mark(c, "C") ELSE c
             c2 == SetTop([cm EXCEPT !.exc = Nil, !.src = 0],
                          [f EXCEPT !.pc = "sc_reraise", !.saved = c.exc, !.savedsrc = c.src])
         IN Push(c2, FrSC(f.n, f.olds))
    [] f.pc = "sc_reraise" ->                                   \* `raise`
         IF c.exc # Nil THEN Pop(Mark(c, IF c.exc = "RecursionError" THEN "E" ELSE "D"))
         ELSE Pop([c EXCEPT !.exc = f.saved, !.src = f.savedsrc])
    \* ---- constructors of Node / AnyNode / SymlinkNode / documented user classes:
    \*      self.parent = parent ; if children: self.children = children
    [] f.pc = "ct_entry" ->
         Push(Goto(c, "ct_children"), FrSP(f.n, f.v))
    [] f.pc = "ct_children" ->
         IF c.exc # Nil THEN Pop(c)
         ELSE IF f.xs = <<>> THEN Pop(c)
         ELSE Push(Goto(c, "ct_done"), FrSC(f.n, f.xs))
    [] f.pc = "ct_done" ->
         Pop(c)

\* the program points a run went through (vacuity control: the harness checks that the model exercises every one)
AllPcs == {"sp_entry", "sp_pre_detach", "sp_do_detach", "sp_post_detach", "sp_pre_attach", "sp_do_attach", "sp_post_attach",
           "dc_entry", "dc_loop", "dc_post", "sc_entry", "sc_after_del", "sc_loop", "sc_post", "sc_handler", "sc_reraise",
           "ct_entry", "ct_children", "ct_done"}
Run(c) == IF c.stk = <<>> THEN c ELSE Run([Step(c) EXCEPT !.pcs = c.pcs \cup {Top(c).pc}])

Begin(par, ch, fr, fp, strict, asrt) ==
  [par |-> par, ch |-> ch, stk |-> <<fr>>, exc |-> Nil, src |-> 0, log |-> <<>>, hc |-> 0,
   fp |-> fp, marks |-> {}, par0 |-> par, strict |-> strict, asrt |-> asrt, pcs |-> {}, nest |-> NoNest]

(***************************************************************************)
(* Forest well-formedness (property C01), on explicit arguments.           *)
(***************************************************************************)
TypeOKF(par, ch) ==
  /\ DOMAIN par = DOMAIN ch
  /\ \A n \in DOMAIN par: par[n] \in DOMAIN par \cup {Nil}
  /\ \A n \in DOMAIN ch: \A i \in 1..Len(ch[n]): ch[n][i] \in DOMAIN par
Consistent(par, ch) ==
  /\ TypeOKF(par, ch)
  /\ \A n \in DOMAIN par: \A m \in DOMAIN par:
        /\ (par[n] = m) <=> InSeq(ch[m], n)
        /\ ~HasDup(ch[m])
RECURSIVE UpF(_, _, _)
UpF(par, n, k) == IF n = Nil THEN Nil ELSE IF k = 0 \/ n \notin DOMAIN par THEN n ELSE UpF(par, par[n], k - 1)
Acyclic(par) == \A n \in DOMAIN par: UpF(par, n, Cardinality(DOMAIN par) + 1) = Nil
WellFormed(par, ch) == Consistent(par, ch) /\ Acyclic(par)
=============================================================================

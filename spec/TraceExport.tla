----------------------------- MODULE TraceExport -----------------------------
(***************************************************************************)
(* Judge for exporter / importer observations (C10 C11 C12 C13).           *)
(*  dict_export : [par, ch, attrs, s, o, obs]       obs = dictionary in token space, flat form             *)
(*  json_export : the same with jml (the decoded text)                                                      *)
(*  dict_import / json_import : [d, obs]  d flat;   obs = [p, attrs] of the imported tree (pre-order)       *)
(*  graph       : [kind, par, ch, s, st, fl, ml, iter, obs]  obs = [nodes, edges]; iter = what PreOrderIter *)
(*                yielded for the same arguments ("admitted exactly as for the iterators")                  *)
(***************************************************************************)
EXTENDS Export, TLC, Json, IOUtils
VARIABLE l
Trace == ndJsonDeserialize(IOEnv.TRACE_FILE)

OptsOf(e) == [attriter |-> e.o.attriter, ml |-> e.o.ml, ci |-> [kind |-> e.o.ci.kind, hide |-> SetOf(e.o.ci.hide), key |-> e.o.ci.key]]
\* observed dictionaries come in flat form (Export!FlatOf): entries [lv, pairs, nk, ck]; ck = the dictionary has a 'children' entry.
\* Equal up to the order of the pairs, unless attriter imposes one; the 'children' entry is present only when non-empty.
EqD(a, d, exact) == LET b == FlatOf(d, 0) IN
                    /\ Len(a) = Len(b)
                    /\ \A i \in 1..Len(b):
                         /\ a[i].lv = b[i].lv /\ a[i].nk = b[i].nk
                         /\ (IF exact THEN a[i].pairs = b[i].pairs ELSE SetOf(a[i].pairs) = SetOf(b[i].pairs) /\ Len(a[i].pairs) = Len(b[i].pairs))
                         /\ a[i].ck = (b[i].nk > 0)
EqImp(obs, t) == /\ obs.p = t.p
                 /\ Len(obs.attrs) = Len(t.attrs)
                 /\ \A i \in 1..Len(t.attrs): SetOf(obs.attrs[i]) = SetOf(t.attrs[i])

Violated(e) ==
  CASE e.q = "dict_export" -> IF EqD(e.obs, Export(e.ch, e.attrs, e.s, OptsOf(e)), e.o.attriter = "sorted") THEN {} ELSE {"C10"}
    [] e.q = "json_export" -> IF EqD(e.obs, JsonExport(e.ch, e.attrs, e.s, OptsOf(e), e.jml), e.o.attriter = "sorted") THEN {} ELSE {"C11"}
    [] e.q = "dict_import" -> IF EqImp(e.obs, ImportFlat(e.d)) THEN {} ELSE {"C10"}
    [] e.q = "json_import" -> IF EqImp(e.obs, ImportFlat(e.d)) THEN {} ELSE {"C11"}
    [] e.q = "graph" -> IF e.obs.nodes = e.iter /\ e.obs.edges = EdgesAmong(e.ch, e.iter) THEN {}
                        ELSE IF e.kind = "mermaid" THEN {"C13"}
                        \* the listed known finding of DotExporter: the only difference are edges into stopped children
                        ELSE IF e.obs.nodes = e.iter /\ SelectSeq(e.obs.edges, LAMBDA x: x[2] \notin SetOf(e.st)) = EdgesAmong(e.ch, e.iter)
                             THEN {"C12", "stop_edge_only"}
                        ELSE {"C12"}
TInit == l = 1
TNext == l <= Len(Trace) /\ PrintT(ToString(<<"J", l, Trace[l].id, Violated(Trace[l])>>)) /\ l' = l + 1
Accepted == TLCGet("stats").diameter - 1 = Len(Trace)
=============================================================================

----------------------------- MODULE TraceExport -----------------------------
(***************************************************************************)
(* Judge for exporter / importer observations (C10 C11 C12 C13).           *)
(*  dict_export : [par, ch, attrs, s, o, obs]       obs = nested dictionary in token space                 *)
(*  json_export : the same with jml (the decoded text)                                                      *)
(*  dict_import / json_import : [d, obs]            obs = [p, attrs] of the imported tree (pre-order)       *)
(*  graph       : [kind, par, ch, s, st, fl, ml, iter, obs]  obs = [nodes, edges]; iter = what PreOrderIter *)
(*                yielded for the same arguments ("admitted exactly as for the iterators")                  *)
(***************************************************************************)
EXTENDS Export, TLC, Json, IOUtils
VARIABLE l
Trace == ndJsonDeserialize(IOEnv.TRACE_FILE)

OptsOf(e) == [attriter |-> e.o.attriter, ml |-> e.o.ml, ci |-> [kind |-> e.o.ci.kind, hide |-> SetOf(e.o.ci.hide), key |-> e.o.ci.key]]
\* dictionaries are equal up to the order of the pairs, unless attriter imposes one
RECURSIVE EqD(_, _, _)
EqD(a, b, exact) == /\ (IF exact THEN a.pairs = b.pairs ELSE SetOf(a.pairs) = SetOf(b.pairs) /\ Len(a.pairs) = Len(b.pairs))
                    /\ Len(a.children) = Len(b.children)
                    \* the 'children' entry is present only when non-empty
                    /\ ("ck" \in DOMAIN a => a.ck = (Len(b.children) > 0))
                    /\ \A i \in 1..Len(a.children): EqD(a.children[i], b.children[i], exact)
EqImp(obs, t) == /\ obs.p = t.p
                 /\ Len(obs.attrs) = Len(t.attrs)
                 /\ \A i \in 1..Len(t.attrs): SetOf(obs.attrs[i]) = SetOf(t.attrs[i])

Violated(e) ==
  CASE e.q = "dict_export" -> IF EqD(e.obs, Export(e.ch, e.attrs, e.s, OptsOf(e)), e.o.attriter = "sorted") THEN {} ELSE {"C10"}
    [] e.q = "json_export" -> IF EqD(e.obs, JsonExport(e.ch, e.attrs, e.s, OptsOf(e), e.jml), e.o.attriter = "sorted") THEN {} ELSE {"C11"}
    [] e.q = "dict_import" -> IF EqImp(e.obs, Import(e.d)) THEN {} ELSE {"C10"}
    [] e.q = "json_import" -> IF EqImp(e.obs, Import(e.d)) THEN {} ELSE {"C11"}
    [] e.q = "graph" -> IF e.obs.nodes = e.iter /\ e.obs.edges = EdgesAmong(e.ch, e.iter) THEN {}
                        ELSE IF e.kind = "mermaid" THEN {"C13"}
                        \* the listed known finding of DotExporter: the only difference are edges into stopped children
                        ELSE IF e.obs.nodes = e.iter /\ SelectSeq(e.obs.edges, LAMBDA x: x[2] \notin SetOf(e.st)) = EdgesAmong(e.ch, e.iter)
                             THEN {"C12", "stop_edge_only"}
                        ELSE {"C12"}
TInit == l = 1
TNext == l <= Len(Trace) /\ PrintT(ToString(<<"J", l, Trace[l].id, Violated(Trace[l])>>)) /\ l' = l + 1
Accepted == TLCGet("stats").diameter - 1 = Len(Trace)
=============================================================================

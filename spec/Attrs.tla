-------------------------------- MODULE Attrs --------------------------------
(***************************************************************************)
(* Symlink nodes (C20) and copies (C19): node kinds, instance attributes,  *)
(* link targets.                                                           *)
(*                                                                         *)
(* own[n]   : the node's own instance attributes (function key -> value)   *)
(* tgt[n]   : the target of a link node, Nil for an ordinary node          *)
(* A link's parent and children are its own; every other attribute read    *)
(* is forwarded to the target, every other write is stored on the target.  *)
(***************************************************************************)
EXTENDS NodeOpsProps          \* IdealSP / RefuseSP for the structural part

AttrErr == "AttributeError"

IsLink(tgt, n) == tgt[n] # Nil
\* the node that finally stores the attributes of n (chains of links; fuel-bounded)
RECURSIVE FinalF(_, _, _)
FinalF(tgt, n, fuel) == IF tgt[n] = Nil \/ fuel = 0 THEN n ELSE FinalF(tgt, tgt[n], fuel - 1)
Final(tgt, n) == FinalF(tgt, n, Cardinality(DOMAIN tgt))

\* getattr(n, key): the node's own value if it has one, else the target's, else AttributeError
RECURSIVE GetF(_, _, _, _, _)
GetF(own, tgt, n, key, fuel) ==
  IF key \in DOMAIN own[n] THEN own[n][key]
  ELSE IF tgt[n] # Nil /\ fuel > 0 THEN GetF(own, tgt, tgt[n], key, fuel - 1)
  ELSE AttrErr
Get(own, tgt, n, key) == GetF(own, tgt, n, key, Cardinality(DOMAIN tgt))

\* setattr(n, key, v): stored on the final target
PutOwn(own, n, key, v) == [own EXCEPT ![n] = [x \in DOMAIN own[n] \cup {key} |-> IF x = key THEN v ELSE own[n][x]]]
Set(own, tgt, n, key, v) == PutOwn(own, Final(tgt, n), key, v)
\* A target may refuse an assignment (a read-only property, a name outside its __slots__): modelled by the sentinel value
\* "ro" -- such a key always reads "ro" and every write to it raises AttributeError and changes nothing, also through a link.
Refuses(own, tgt, n, key) == LET f == Final(tgt, n) IN key \in DOMAIN own[f] /\ own[f][key] = "ro"
\* constructor keywords in order, up to (excluding) the first one the target refuses
RECURSIVE AcceptedKws(_, _, _, _)
AcceptedKws(own, tgt, n, kws) == IF kws = <<>> \/ Refuses(own, tgt, n, Head(kws)[1]) THEN <<>>
                              ELSE <<Head(kws)>> \o AcceptedKws(own, tgt, n, Tail(kws))

\* constructor keywords of a link: each one is an assignment on the link (property layer = as-built after the fix: commit;
\* the pinned code wrote them into the immediate target's own __dict__, shadowing later writes when that target is a link)
RECURSIVE SetAll(_, _, _, _)
SetAll(own, tgt, n, kws) == IF kws = <<>> THEN own ELSE SetAll(Set(own, tgt, n, Head(kws)[1], Head(kws)[2]), tgt, n, Tail(kws))

\* what a reader sees: every key of every live node
Reads(own, tgt, alive, keys) == [n \in alive |-> [key \in keys |-> Get(own, tgt, n, key)]]

\* C20's invariant: a link reads exactly what its target reads
Forwarding(own, tgt, alive, keys) == \A n \in alive: IsLink(tgt, n) => \A key \in keys: Get(own, tgt, n, key) = Get(own, tgt, tgt[n], key)
\* and the reason it holds: links never own a forwarded attribute
LinksOwnNothing(own, tgt, alive, keys) == \A n \in alive: IsLink(tgt, n) => DOMAIN own[n] \cap keys = {}

(******************************** C19: copies ******************************)
\* everything reachable from n along parent, children and target links
Step1(par, ch, tgt, S) == S \cup {par[x] : x \in {y \in S : par[y] # Nil}} \cup UNION {SetOf(ch[x]) : x \in S}
                            \cup {tgt[x] : x \in {y \in S : tgt[y] # Nil}}
RECURSIVE ClosureF(_, _, _, _, _)
ClosureF(par, ch, tgt, S, fuel) == IF fuel = 0 THEN S ELSE ClosureF(par, ch, tgt, Step1(par, ch, tgt, S), fuel - 1)
Closure(par, ch, tgt, n) == ClosureF(par, ch, tgt, {n}, Cardinality(DOMAIN par))

\* A state for copies: [par, ch, tgt, cls, foo, own] functions over the live nodes (own: sequence of <<key, value>> pairs).
\* C19 as a predicate: `post` extends `pre` by an independent, consistent, isomorphic copy of the closure of n;
\* bij maps each node of the closure to its copy; result is the node returned by the copy operation.
Img(bij, x) == IF x = Nil THEN Nil ELSE bij[x]
IsCopy(pre, post, n, bij, result) ==
  LET R == Closure(pre.par, pre.ch, pre.tgt, n)
      old == DOMAIN pre.par
      new == DOMAIN post.par \ old IN
  /\ DOMAIN bij = R
  /\ \A x, y \in R: x # y => bij[x] # bij[y]
  /\ {bij[x] : x \in R} = new                         \* shares no node object with the original; nothing else appears
  /\ result = bij[n]                                  \* the result occupies n's position
  /\ \A x \in R:                                      \* same shape, child order, classes, attributes, targets
        /\ post.par[bij[x]] = Img(bij, pre.par[x])
        /\ post.ch[bij[x]] = [i \in 1..Len(pre.ch[x]) |-> bij[pre.ch[x][i]]]
        /\ post.tgt[bij[x]] = Img(bij, pre.tgt[x])
        /\ post.cls[bij[x]] = pre.cls[x]
        /\ post.foo[bij[x]] = pre.foo[x]
        /\ post.own[bij[x]] = pre.own[x]               \* the node's own instance attributes (a link may have some, too)
  /\ \A x \in old:                                    \* the original is untouched
        /\ post.par[x] = pre.par[x] /\ post.ch[x] = pre.ch[x] /\ post.tgt[x] = pre.tgt[x]
        /\ post.cls[x] = pre.cls[x] /\ post.foo[x] = pre.foo[x] /\ post.own[x] = pre.own[x]
  /\ WellFormed(post.par, post.ch)                    \* C01 on the whole
=============================================================================

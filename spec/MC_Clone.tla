------------------------------ MODULE MC_Clone ------------------------------
(***************************************************************************)
(* Model-checking configuration M6b (C19): pickle / deepcopy.              *)
(* Initial states: every ordered forest with up to MaxN nodes (several     *)
(* trees, so that link targets can live in another tree) x family of node  *)
(* classes x assignment of link nodes (family "links": Node + SymlinkNode; *)
(* targets: a node of the same tree, of another tree, or another link).    *)
(* Transition: Clone(n, how) from every node, followed by two mutations    *)
(* (one on the copy, one on the original) that must not affect the other   *)
(* side.  Copies get the fresh identities k+i.                             *)
(***************************************************************************)
EXTENDS Attrs, Tree, TLC, Json

CONSTANTS MaxN, MaxLinks

VARIABLES k, p, tg, fam, zlast
vars == <<k, p, tg, fam, zlast>>
View == <<k, p, tg, fam>>

RECURSIVE RightPath(_, _)
RightPath(q, i) == IF i = 0 THEN {} ELSE {i} \cup RightPath(q, q[i])
ValidForest(n, q) == q[1] = 0 /\ \A i \in 2..n: q[i] < i /\ (q[i] = 0 \/ q[i] \in RightPath(q, i - 1))
\* link targets: no self links, no cycles (a link is created after its target)
RECURSIVE ChainOK(_, _, _)
ChainOK(t, i, fuel) == IF t[i] = 0 THEN TRUE ELSE IF fuel = 0 THEN FALSE ELSE ChainOK(t, t[i], fuel - 1)
ValidTargets(n, t) == /\ \A i \in 1..n: t[i] # i /\ ChainOK(t, i, n)
                      /\ Cardinality({i \in 1..n : t[i] # 0}) <= MaxLinks

Families == {"node", "anynode", "mixin", "light", "lightsub", "links", "linksown", "falsy"}
HasLinks(f) == f \in {"links", "linksown"}
Hows(f) == {"deepcopy"} \cup {"pickle" \o ToString(i) : i \in (IF f \in {"light", "lightsub"} THEN 2..5 ELSE 0..5)}

Nodes == 1..k
Par == p
Ch == [i \in Nodes |-> SelectSeq([j \in 1..k |-> j], LAMBDA j: p[j] = i)]
\* family "lightsub": a __slots__ class hierarchy -- odd nodes are the base class, even nodes a subclass with a slot of its own
Cls(i) == IF fam = "lightsub" THEN (IF i % 2 = 1 THEN "light" ELSE "lightsub") ELSE
          IF HasLinks(fam) THEN (IF tg[i] # 0 THEN (IF fam = "links" THEN "symlink" ELSE "symlinkown") ELSE "node") ELSE fam
\* own instance attributes: ordinary nodes carry foo; a link of the family "linksown" keeps a link-local attribute `tag`
OwnPairs(i) == IF fam = "lightsub" /\ i % 2 = 0 THEN << <<"foo", "v" \o ToString(i)>>, <<"weight", "w" \o ToString(i)>> >>
               ELSE IF tg[i] = 0 THEN << <<"foo", "v" \o ToString(i)>> >>
               ELSE IF fam = "linksown" THEN << <<"tag", "t" \o ToString(i)>> >> ELSE <<>>
\* ordinary nodes carry foo = "v<i>"; links forward
Own == [i \in Nodes |-> IF tg[i] # 0 THEN [x \in {} |-> "1"] ELSE [x \in {"foo"} |-> "v" \o ToString(i)]]
Foo(own, t, S) == [i \in S |-> Get(own, t, i, "foo")]
Pre == [par |-> Par, ch |-> Ch, tgt |-> tg, cls |-> [i \in Nodes |-> Cls(i)], foo |-> Foo(Own, tg, Nodes), own |-> [i \in Nodes |-> OwnPairs(i)]]

\* the canonical copy: node i of the closure becomes k + i
CloneDef(n) ==
  LET R == Closure(Par, Ch, tg, n)
      C(x) == IF x = 0 THEN 0 ELSE k + x
      all == Nodes \cup {C(x) : x \in R}
      orig(y) == y - k
  IN [par |-> [y \in all |-> IF y <= k THEN Par[y] ELSE C(Par[orig(y)])],
      ch  |-> [y \in all |-> IF y <= k THEN Ch[y] ELSE [i \in 1..Len(Ch[orig(y)]) |-> C(Ch[orig(y)][i])]],
      tgt |-> [y \in all |-> IF y <= k THEN tg[y] ELSE C(tg[orig(y)])],
      cls |-> [y \in all |-> IF y <= k THEN Cls(y) ELSE Cls(orig(y))],
      foo |-> [y \in all |-> IF y <= k THEN Pre.foo[y] ELSE Pre.foo[orig(y)]],
      own |-> [y \in all |-> IF y <= k THEN OwnPairs(y) ELSE OwnPairs(orig(y))]]
\* follow-up mutations: detach the result inside the copy; delete the children of n's root in the original
After(st, n) ==
  LET s1 == IdealSP(st.par, st.ch, k + n, 0)
      s2 == IdealDC(s1.par, s1.ch, RootOf(Par, n)) IN
  [st EXCEPT !.par = s2.par, !.ch = s2.ch]

Init == /\ k \in 1..MaxN
        /\ p \in [1..k -> 0..(k - 1)]
        /\ fam \in Families
        /\ tg \in [1..k -> 0..k]
        /\ zlast = [q |-> "init"]
        /\ ValidForest(k, p)
        /\ (~HasLinks(fam) => \A i \in 1..k: tg[i] = 0)
        /\ (HasLinks(fam) => \E i \in 1..k: tg[i] # 0)
        /\ ValidTargets(k, tg)

Next == /\ UNCHANGED <<k, p, tg, fam>>
        /\ \E n \in Nodes, how \in Hows(fam):
             \E st \in {CloneDef(n)}:
               zlast' = [q |-> "clone", n |-> n, how |-> how, closure |-> Closure(Par, Ch, tg, n), post |-> st, after |-> After(st, n)]

\* the canonical copy satisfies the property predicate; the follow-up mutations do not cross
Thm_Clone == [][LET z == zlast'
                    R == z.closure
                    bij == [x \in R |-> k + x] IN
                /\ IsCopy(Pre, z.post, z.n, bij, k + z.n)
                /\ \A x \in Nodes: x \notin SetOf(Ch[RootOf(Par, z.n)]) /\ x # RootOf(Par, z.n)
                                   => z.after.par[x] = Par[x] /\ z.after.ch[x] = Ch[x]
                /\ \A x \in R: x # z.n /\ x # Par[z.n] => z.after.ch[k + x] = z.post.ch[k + x] /\ z.after.par[k + x] = z.post.par[k + x]
                /\ WellFormed(z.after.par, z.after.ch)]_vars

Emit == PrintT(ToJson([k |-> k, p |-> p, tg |-> tg, fam |-> fam, pre |-> Pre, z |-> zlast']))
=============================================================================

INVARIANT Lem_Walk

-------------------------------- MODULE Tree --------------------------------
(***************************************************************************)
(* Property layer for the read-only API: every query of anytree defined as *)
(* a TLA+ operator over the forest (par, ch).  These are the *definitions* *)
(* the listed properties C04 C05 C06 C14 C15 state; module IterAlgo holds  *)
(* the as-built algorithms and TLC checks that the two agree.              *)
(* All operators assume a well-formed forest (C01).                        *)
(***************************************************************************)
EXTENDS Base

NoMax == 100000      \* maxlevel=None (larger than any depth in any model or trace)
NoBound == -1        \* mincount / maxcount = None

(************************** C04: navigation ********************************)
RECURSIVE PathTo(_, _)                       \* node.path: root ... n
PathTo(par, n) == IF par[n] = Nil THEN <<n>> ELSE Append(PathTo(par, par[n]), n)
Ancestors(par, n) == SubSeq(PathTo(par, n), 1, Len(PathTo(par, n)) - 1)
RootOf(par, n) == PathTo(par, n)[1]
\* (linear recursion: the trees of MC_QueryBig are hundreds of levels deep; Lem_Nav checks Depth = Len(Ancestors) on every small shape)
RECURSIVE Depth(_, _)
Depth(par, n) == IF par[n] = Nil THEN 0 ELSE 1 + Depth(par, par[n])
IsRoot(par, n) == par[n] = Nil
IsLeaf(ch, n) == ch[n] = <<>>
Siblings(par, ch, n) == IF par[n] = Nil THEN <<>> ELSE Rm(ch[par[n]], n)

RECURSIVE PreOrder(_, _)                     \* a node before its children, children left to right
PreOrder(ch, n) == <<n>> \o Flat([i \in 1..Len(ch[n]) |-> PreOrder(ch, ch[n][i])])
RECURSIVE PostOrder(_, _)                    \* all children's subtrees left to right, then the node
PostOrder(ch, n) == Flat([i \in 1..Len(ch[n]) |-> PostOrder(ch, ch[n][i])]) \o <<n>>

Descendants(ch, n) == Tail(PreOrder(ch, n))
Leaves(ch, n) == SelectSeq(PreOrder(ch, n), LAMBDA m: ch[m] = <<>>)
Size(ch, n) == 1 + Len(Descendants(ch, n))
RECURSIVE Height(_, _)                       \* edges on the longest downward path
Height(ch, n) == IF ch[n] = <<>> THEN 0 ELSE 1 + MaxOf({Height(ch, ch[n][i]) : i \in 1..Len(ch[n])})

\* util.commonancestors(*nodes): longest common prefix of the ancestor chains
RECURSIVE CommonPrefix(_)
CommonPrefix(ss) ==
  IF ss = <<>> \/ \E i \in 1..Len(ss): ss[i] = <<>> THEN <<>>
  ELSE IF \A i \in 1..Len(ss): Head(ss[i]) = Head(ss[1])
       THEN <<Head(ss[1])>> \o CommonPrefix([i \in 1..Len(ss) |-> Tail(ss[i])])
       ELSE <<>>
CommonAncestors(par, ns) == CommonPrefix([i \in 1..Len(ns) |-> Ancestors(par, ns[i])])

\* util.leftsibling / rightsibling: the neighbouring child of the same parent, or None (as <<>>)
LeftSibling(par, ch, n) ==
  IF par[n] = Nil THEN <<>> ELSE LET s == ch[par[n]] i == IndexOf(s, n) IN IF i > 1 THEN <<s[i-1]>> ELSE <<>>
RightSibling(par, ch, n) ==
  IF par[n] = Nil THEN <<>> ELSE LET s == ch[par[n]] i == IndexOf(s, n) IN IF i < Len(s) THEN <<s[i+1]>> ELSE <<>>

Nav(par, ch, n) ==
  [path |-> PathTo(par, n), ancestors |-> Ancestors(par, n), root |-> RootOf(par, n), depth |-> Depth(par, n),
   is_root |-> IsRoot(par, n), is_leaf |-> IsLeaf(ch, n), siblings |-> Siblings(par, ch, n),
   descendants |-> Descendants(ch, n), leaves |-> Leaves(ch, n), size |-> Size(ch, n), height |-> Height(ch, n),
   left |-> LeftSibling(par, ch, n), right |-> RightSibling(par, ch, n),
   children |-> ch[n], parent |-> par[n]]

(************************** C05: the five traversal orders *****************)
RelDepth(par, s, m) == Depth(par, m) - Depth(par, s)
\* by increasing depth; within a depth in the order of their parents and then sibling order
\* (= the pre-order, stably sorted by depth)
GroupsDef(par, ch, s) ==
  LET pre == PreOrder(ch, s) IN
  [d \in 1..(Height(ch, s) + 1) |-> SelectSeq(pre, LAMBDA m: RelDepth(par, s, m) = d - 1)]
\* the same in one pass: the pre-order distributed over one bucket per depth (Lem_Orders: Groups = GroupsDef on every small
\* shape; on the deep trees of MC_QueryBig the definition above costs seconds per evaluation)
RECURSIVE Bucket(_, _, _)
Bucket(seq, dep, acc) == IF seq = <<>> THEN acc
                         ELSE Bucket(Tail(seq), dep, [acc EXCEPT ![dep[Head(seq)] + 1] = Append(@, Head(seq))])
Groups(par, ch, s) ==
  LET pre == PreOrder(ch, s)
      dep == [m \in SetOf(pre) |-> RelDepth(par, s, m)]
  IN Bucket(pre, dep, [d \in 1..(Height(ch, s) + 1) |-> <<>>])
LevelOrder(par, ch, s) == Flat(Groups(par, ch, s))
ZigZag(par, ch, s) == LET g == Groups(par, ch, s) IN [d \in 1..Len(g) |-> IF d % 2 = 0 THEN Rev(g[d]) ELSE g[d]]

(************************** C06: filter_, stop, maxlevel *******************)
\* nodes on the path from s down to and including m   (m in the subtree of s)
RECURSIVE Between(_, _, _)
Between(par, s, m) == IF m = s THEN {s} ELSE {m} \cup Between(par, s, par[m])
\* admitted: relative depth below maxlevel, no node on the path from the start node satisfies stop
Admitted(par, ch, s, st, ml) ==
  {m \in SetOf(PreOrder(ch, s)) : RelDepth(par, s, m) < ml /\ Between(par, s, m) \cap st = {}}
Restrict(seq, adm, fl) == SelectSeq(seq, LAMBDA m: m \in adm /\ m \in fl)

VisitPre(par, ch, s, fl, st, ml)   == Restrict(PreOrder(ch, s), Admitted(par, ch, s, st, ml), fl)
VisitPost(par, ch, s, fl, st, ml)  == Restrict(PostOrder(ch, s), Admitted(par, ch, s, st, ml), fl)
VisitLevel(par, ch, s, fl, st, ml) == Restrict(LevelOrder(par, ch, s), Admitted(par, ch, s, st, ml), fl)
\* one (possibly empty) tuple per admitted depth level
VisitGroups(par, ch, s, fl, st, ml) ==
  LET adm == Admitted(par, ch, s, st, ml)
      g == Groups(par, ch, s)
      nlev == Cardinality({RelDepth(par, s, m) : m \in adm})
  IN [d \in 1..nlev |-> Restrict(g[d], adm, fl)]
VisitZigZag(par, ch, s, fl, st, ml) ==
  LET g == VisitGroups(par, ch, s, fl, st, ml) IN [d \in 1..Len(g) |-> IF d % 2 = 0 THEN Rev(g[d]) ELSE g[d]]

AllIters(par, ch, s, fl, st, ml) ==
  [pre |-> VisitPre(par, ch, s, fl, st, ml), post |-> VisitPost(par, ch, s, fl, st, ml),
   level |-> VisitLevel(par, ch, s, fl, st, ml), groups |-> VisitGroups(par, ch, s, fl, st, ml),
   zigzag |-> VisitZigZag(par, ch, s, fl, st, ml)]

(************************** C14: search *************************************)
\* result record: ok / CountError(which bound, bound, found)
Found(v) == [err |-> "none", val |-> v, bound |-> "none", want |-> 0, got |-> 0]
CountErr(b, want, got, v) == [err |-> "CountError", val |-> v, bound |-> b, want |-> want, got |-> got]
\* mincount / maxcount: an integer or None
FindAll(par, ch, s, fl, st, ml, minc, maxc) ==
  LET r == VisitPre(par, ch, s, fl, st, ml) IN
  IF minc # NoBound /\ Len(r) < minc THEN CountErr("min", minc, Len(r), r)
  ELSE IF maxc # NoBound /\ Len(r) > maxc THEN CountErr("max", maxc, Len(r), r)
  ELSE Found(r)
\* find: None (as <<>>) / the node / CountError for more than one
Find(par, ch, s, fl, st, ml) ==
  LET r == VisitPre(par, ch, s, fl, st, ml) IN
  IF Len(r) > 1 THEN CountErr("max", 1, Len(r), r) ELSE Found(r)
\* the nodes whose attribute exists and equals value: attr is a function Node -> value or "absent"
ByAttr(attr, value) == {m \in DOMAIN attr : attr[m] # "absent" /\ attr[m] = value}

(************************** C15: Walker *************************************)
CommonLen(p, q) == Len(CommonPrefix(<<p, q>>))
Walk(par, s, e) ==
  IF RootOf(par, s) # RootOf(par, e) THEN [err |-> "WalkError", up |-> <<>>, common |-> <<>>, down |-> <<>>]
  ELSE LET ps == PathTo(par, s) pe == PathTo(par, e) k == CommonLen(ps, pe) IN
       [err |-> "none", up |-> Rev(SubSeq(ps, k + 1, Len(ps))), common |-> <<ps[k]>>, down |-> SubSeq(pe, k + 1, Len(pe))]
\* the walk as one node sequence
WalkSeq(w) == w.up \o w.common \o w.down
=============================================================================

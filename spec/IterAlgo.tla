------------------------------ MODULE IterAlgo ------------------------------
(***************************************************************************)
(* As-built layer for the iterators: the five algorithms transcribed from  *)
(* anytree/iterators/*.py (explicit child lists, their own level counters, *)
(* `maxlevel - 1 if maxlevel else None`).  TLC checks that they equal the  *)
(* definitions of module Tree for every shape, start node, stop set,       *)
(* filter set and maxlevel (C05, C06).                                     *)
(***************************************************************************)
EXTENDS Tree

Abort(level, ml) == ml # NoMax /\ level > ml              \* AbstractIter._abort_at_level
GetCh(cs, st) == SelectSeq(cs, LAMBDA c: c \notin st)      \* AbstractIter._get_children
\* AbstractIter.__init: children handed to _iter
StartList(s, st, ml) == IF Abort(1, ml) THEN <<>> ELSE GetCh(<<s>>, st)

RECURSIVE APre(_, _, _, _, _)      \* PreOrderIter._iter(children, filter_, stop, maxlevel)
APre(ch, cs, fl, st, ml) ==
  Flat([j \in 1..Len(cs) |-> LET c == cs[j] IN
     IF c \in st THEN <<>>
     ELSE (IF c \in fl THEN <<c>> ELSE <<>>)
          \o (IF ~Abort(2, ml)
              THEN APre(ch, ch[c], fl, st, IF ml # NoMax /\ ml # 0 THEN ml - 1 ELSE NoMax)   \* `maxlevel - 1 if maxlevel else None`
              ELSE <<>>)])

RECURSIVE APost(_, _, _, _, _, _)  \* PostOrderIter.__next(children, level, filter_, stop, maxlevel)
APost(ch, cs, level, fl, st, ml) ==
  IF Abort(level, ml) THEN <<>>
  ELSE Flat([j \in 1..Len(cs) |->
          APost(ch, GetCh(ch[cs[j]], st), level + 1, fl, st, ml) \o (IF cs[j] \in fl THEN <<cs[j]>> ELSE <<>>)])

RECURSIVE ALevel(_, _, _, _, _, _) \* LevelOrderIter._iter
ALevel(ch, cs, level, fl, st, ml) ==
  IF cs = <<>> THEN <<>>
  ELSE LET lv == level + 1
           out == SelectSeq(cs, LAMBDA c: c \in fl)
           nxt == IF Abort(lv, ml) THEN <<>> ELSE Flat([j \in 1..Len(cs) |-> GetCh(ch[cs[j]], st)])
       IN out \o ALevel(ch, nxt, lv, fl, st, ml)

RECURSIVE AGroups(_, _, _, _, _, _) \* LevelOrderGroupIter._iter
AGroups(ch, cs, level, fl, st, ml) ==
  IF cs = <<>> THEN <<>>
  ELSE LET lv == level + 1 IN
       <<SelectSeq(cs, LAMBDA c: c \in fl)>>
       \o (IF Abort(lv, ml) THEN <<>>
           ELSE AGroups(ch, Flat([j \in 1..Len(cs) |-> GetCh(ch[cs[j]], st)]), lv, fl, st, ml))

\* ZigZagGroupIter._iter: a fresh LevelOrderGroupIter on children[0], every second tuple reversed
AZigZag(ch, cs, fl, st, ml) ==
  IF cs = <<>> THEN <<>>
  ELSE LET g == AGroups(ch, StartList(cs[1], st, ml), 1, fl, st, ml) IN
       [d \in 1..Len(g) |-> IF d % 2 = 0 THEN Rev(g[d]) ELSE g[d]]

AsBuiltIters(ch, s, fl, st, ml) ==
  LET cs == StartList(s, st, ml) IN
  [pre |-> APre(ch, cs, fl, st, ml), post |-> APost(ch, cs, 1, fl, st, ml),
   level |-> ALevel(ch, cs, 1, fl, st, ml), groups |-> AGroups(ch, cs, 1, fl, st, ml),
   zigzag |-> AZigZag(ch, cs, fl, st, ml)]
=============================================================================

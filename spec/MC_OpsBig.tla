------------------------------ MODULE MC_OpsBig ------------------------------
(***************************************************************************)
(* M1 beyond the exhaustive bounds: the mutators on a forest in which one  *)
(* node (the hub) has Wide children -- hundreds: counts that small models  *)
(* never reach -- plus a handful of spare roots.  From that state a fixed  *)
(* list of calls is made, each under no fault, under one raising hook      *)
(* invocation at drawn positions, and under persistent vetoes:             *)
(* re-assigning all children in another order, stealing all of them for    *)
(* another node, assignments that are refused half-way (a loop, a vetoed   *)
(* attach) and must restore hundreds of children, deleting all children,   *)
(* attaching one more, detaching the first / a middle / the last one.      *)
(* The theorems of MC_Ops are checked on every transition, every           *)
(* transition is emitted and replayed like the exhaustive ones.            *)
(***************************************************************************)
EXTENDS MC_Ops, SequencesExt, Randomization

CONSTANTS Wide, Draws

Ord == SetToSeq(Node)            \* some fixed enumeration of the (otherwise unordered) nodes
Root == Ord[1]
Hub == Ord[2]
Kids == SubSeq(Ord, 3, Wide + 2)
Spare == SubSeq(Ord, Wide + 3, Len(Ord))

BigInit == /\ parent = [n \in Node |-> IF n = Hub THEN Root ELSE IF InSeq(Kids, n) THEN Hub ELSE Nil]
           /\ children = [n \in Node |-> IF n = Root THEN <<Hub>> ELSE IF n = Hub THEN Kids ELSE <<>>]
           /\ zlast = [k |-> "init"]

BigCalls ==
  {FrSC(Hub, Rev(Kids)),                                   \* all children again, in another order
   FrSC(Hub, Kids \o <<Spare[1]>>),                        \* ... and one more
   FrSC(Spare[1], Kids),                                   \* another node takes all of them
   FrSC(Hub, <<Spare[1], Root>>),                          \* refused half-way: a loop after one attach
   FrSC(Hub, <<Spare[1], Spare[1]>>),                      \* refused up front: a duplicate
   FrSC(Hub, <<Spare[1], Spare[2]>>),
   FrSC(Hub, <<>>),
   FrDC(Hub),
   FrSP(Spare[1], Hub),                                    \* one more child
   FrSP(Kids[1], Nil), FrSP(Kids[Wide \div 2], Nil), FrSP(Kids[Wide], Nil),
   FrSP(Kids[Wide], Spare[1]), FrSP(Hub, Kids[Wide])}      \* a move away; a loop below the last child

Pick(T, salt) == RandomElement({<<x, salt>> : x \in T})[1]
BigPlans(fr) ==
  LET base == Run(Begin(parent, children, fr, NoFault, Strict, Asrt)) IN
  {NoFault}
  \cup (IF base.hc = 0 THEN {} ELSE {Once({Pick(1..base.hc, <<i, base.hc>>)}) : i \in 1..Draws}
                                   \cup {Once({1}), Once({base.hc}), Once({(base.hc + 1) \div 2})})
  \cup {Persist({"pre_attach"}, {Kids[Wide]}), Persist({"pre_detach"}, {Kids[2]}), Persist({"pre_attach_children"}, {Hub}),
        Persist({"post_attach"}, {Spare[1]})}

BigNext == \E fr \in BigCalls: \E fp \in BigPlans(fr):
             \E r \in {Run(Begin(parent, children, fr, fp, Strict, Asrt))}:
               /\ parent' = r.par /\ children' = r.ch
               /\ zlast' = ObsOf(parent, children, fr, fp, r)
\* one call deep: under this VIEW every successor has the fingerprint of the initial state and is not expanded
BigView == 0
=============================================================================

------------------------------ MODULE MC_OpsRe ------------------------------
(***************************************************************************)
(* Re-entrant hooks: every forest over Node, every public call, and for    *)
(* every hook invocation of that call every call `m.parent = w` the hook   *)
(* could make (fault plans of mode "act").  One TLC transition per outer   *)
(* call; checks the as-built interpreter against the property layer        *)
(* (NodeOpsProps!Re_OK) and emits every transition as a test vector.       *)
(* The forests are those reachable by plain calls *and* by calls with      *)
(* interfering hooks; the latter can be corrupt (see DESIGN: the loop      *)
(* check is not repeated after a hook): calls are made on the well-formed  *)
(* ones only, and the vectors say which transitions corrupt the forest.    *)
(***************************************************************************)
EXTENDS MC_Ops

ActPlans(par, ch, fr) ==
  LET base == Run(Begin(par, ch, fr, NoFault, Strict, Asrt)) IN
  UNION {{Acting(k, m, w, "sp", r) : m \in Node, w \in Node \cup {Nil}} \cup {Acting(k, m, Nil, "dc", r) : m \in Node}
         : k \in 1..base.hc, r \in BOOLEAN}

ReObsOf(par, ch, fr, fp, r) ==
  [k |-> CallKind(fr.pc), n |-> fr.n, v |-> fr.v, xs |-> fr.xs, bad |-> fr.bad,
   plan |-> fp, strict |-> Strict, asrt |-> Asrt,
   prepar |-> par, prech |-> ch, postpar |-> r.par, postch |-> r.ch,
   exc |-> r.exc, src |-> r.src, log |-> r.log, marks |-> r.marks, pcs |-> r.pcs, nest |-> r.nest]

\* (corrupt forests are reached, emitted and checked, but no call is made on them)
ReNext == WellFormed(parent, children) /\
          \E fr \in Calls(parent, children): \E fp \in ActPlans(parent, children, fr):
            \E r \in {Run(Begin(parent, children, fr, fp, Strict, Asrt))}:
              /\ parent' = r.par /\ children' = r.ch
              /\ zlast' = ReObsOf(parent, children, fr, fp, r)

Thm_Re == [][Acted(zlast') /\ Re_OK(zlast')]_vars
\* what an interfering hook can do to the as-built code (documented, not a listed property): counted by the harness
Corrupting(o) == ~WellFormed(o.postpar, o.postch) \/ o.exc = "AssertionError"

\* on a cyclic forest the library does not terminate (iter_path_reverse walks up for ever): such vectors are not replayed
Cyclic(o) == \/ ~Acyclic(o.postpar)
             \/ \E i \in 1..Len(o.log): ~Acyclic(o.log[i].par)
\* hook snapshots can be corrupt here: both functions are emitted
ReEmit == PrintT(ToJson([o |-> zlast', re |-> ReViolated(zlast'), ni |-> NonInterfering(zlast'), bad |-> Corrupting(zlast'), cyc |-> Cyclic(zlast')]))
=============================================================================

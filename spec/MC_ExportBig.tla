---------------------------- MODULE MC_ExportBig ----------------------------
(***************************************************************************)
(* M5 beyond the exhaustive bounds: the exporters / importers on large     *)
(* random trees (BigMin..BigMax nodes: more than 64, 128, 256 lines of     *)
(* output, hundreds of children below one node, hundreds of levels), with  *)
(* a fifth attribute scheme (a dozen numbered attributes per node) and     *)
(* drawn options.  The as-built = definition parts of Thm_Dict / Thm_Graph *)
(* are checked on every transition; every transition is emitted.           *)
(***************************************************************************)
EXTENDS MC_Export, Randomization

CONSTANTS BigMin, BigMax, Instances, PerShape

Pick(T, salt) == RandomElement({<<x, salt>> : x \in T})[1]
Weighted(q, i, style) ==
  LET rp == RightPath(q, i - 1)
      w(c) == CASE style = 1 -> (IF c = i - 1 THEN 6 ELSE 1)
                [] style = 2 -> (IF c = q[i - 1] \/ (q[i - 1] = 0 /\ c = i - 1) THEN 8 ELSE 1)
                [] style = 3 -> (IF c = i - 1 \/ c = q[i - 1] THEN 3 ELSE 1)
                [] style = 4 -> (IF c = 1 THEN 8 ELSE 0)
                [] style = 5 -> (IF c = i - 1 THEN 8 ELSE 0)
                [] OTHER -> 1
  IN {t \in (rp \X (1..8)) : t[2] <= w(t[1])}
RECURSIVE Grow(_, _, _, _, _)
Grow(q, i, n, style, salt) ==
  IF i > n THEN q ELSE Grow([q EXCEPT ![i] = Pick(Weighted(q, i, style), <<salt, i>>)[1]], i + 1, n, style, salt)

BigInit == \E j \in 1..Instances:
             /\ k = IF j % 6 \in {4, 5} THEN BigMax - ((j \div 6) % 10) ELSE Pick(BigMin..BigMax, j)
             /\ p = Grow([i \in 1..k |-> 0], 2, k, j % 6, j)
             /\ zlast = [q |-> "init"]

\* scheme 5: a dozen numbered attributes (k1 .. k12: two-digit keys, k1 a prefix of k10) in non-sorted order
BigAttr(sc) == IF sc <= 4 THEN AttrScheme(sc)
               ELSE [i \in Nodes |-> [j \in 1..12 |-> <<"k" \o ToString(13 - j), "v" \o ToString((i + j) % 5)>>]]
BigKey == [i \in Nodes |-> (i * 7) % 311]
BigLevel(s, salt) == LET h == Height(Ch, s) IN
                     \* (the first two queries of an instance are anchored: start at the root, level limits 257 and 258 on deep instances)
                     CASE salt[1] <= 2 /\ h > 257 -> 256 + salt[1]
                       [] Pick(1..3, <<salt, 0>>) = 1 -> NoMax
                       [] h > 257 /\ Pick(1..4, <<salt, 1>>) > 1 -> Pick({256, 257, 258, 259, h - 1}, salt)
                       [] OTHER -> Pick({0, 1, 2, 3, 5, 9, 10, 11, 256, 257} \cup {h - 1, h, h + 1}, salt)
Roots == {n \in Nodes : p[n] = 0}
PickStart(salt) == IF salt[1] <= 2 THEN 1 ELSE IF Pick(1..3, <<salt, 0>>) <= 2 THEN Pick(Roots, salt) ELSE Pick(Nodes, salt)
SmallSub(S, m, salt) == IF S = {} THEN {} ELSE
   {t[1] : t \in RandomSubset(Pick(0..(IF Cardinality(S) < m THEN Cardinality(S) ELSE m), salt), {<<x, salt>> : x \in S})}

BigDict(i) == \E s \in {PickStart(<<i, 1>>)}, sc \in {Pick(1..5, <<i, 2>>)}: \E ai \in {Pick({"none", "sorted", "public"}, <<i, 3>>)}:
   \E kd \in {Pick({"list", "reversed", "filter"}, <<i, 4>>)}: \E hide \in {IF kd = "filter" /\ i > 2 THEN SmallSub(Sub(s) \ {s}, 2, <<i, 5>>) ELSE {}}:
   \E ml \in {BigLevel(s, <<i, 6>>)}, jml \in {Pick({NoMax, NoMax, 0, 2, 257}, <<i, 7>>)}:
   \E o \in {[attriter |-> ai, ci |-> [kind |-> IF hide = {} /\ kd = "filter" THEN "list" ELSE kd, hide |-> hide, key |-> BigKey], ml |-> ml]}:
   \E attrs \in {BigAttr(sc)}: \E d \in {Export(Ch, attrs, s, o)}:
     zlast' = [q |-> "dict", s |-> s, attrs |-> attrs, o |-> o, d |-> d, imp |-> Import(d),
               jml |-> jml, jd |-> JsonExport(Ch, attrs, s, o, jml), jdd |-> JsonExport(Ch, attrs, s, DefaultOpts, jml)]
BigGraph(i) == \E s \in {PickStart(<<i, 1>>)}: \E st \in {IF i <= 2 THEN {} ELSE SmallSub(Sub(s), 3, <<i, 2>>)}, hide \in {IF i <= 2 THEN {} ELSE SmallSub(Sub(s), 3, <<i, 3>>)}, ml \in {BigLevel(s, <<i, 4>>)}:
     zlast' = [q |-> "graph", s |-> s, st |-> st, fl |-> Nodes \ hide, ml |-> ml,
               def |-> GraphDef(Par, Ch, s, Nodes \ hide, st, ml),
               dot |-> ADot(Par, Ch, s, Nodes \ hide, st, ml),
               mermaid |-> AMermaid(Par, Ch, s, Nodes \ hide, st, ml),
               names |-> [n \in Nodes |-> GraphNames[(n % 7) + 1]],
               esc |-> [n \in Nodes |-> Esc(GraphNames[(n % 7) + 1])]]
BigNext == UNCHANGED <<k, p>> /\ \E i \in 1..PerShape: IF "dict" \in Queries THEN BigDict(i) ELSE BigGraph(i)

BigThm_Dict == [][zlast'.q = "dict" =>
   LET z == zlast' t == z.imp IN
   /\ Export(ChOfArray(t.p), t.attrs, 1, DefaultOpts) = z.d
   /\ Len(t.p) = Len(t.attrs) /\ t.p[1] = 0
   /\ z.jd = Export(Ch, z.attrs, z.s, [z.o EXCEPT !.ml = IF z.jml = NoMax THEN z.o.ml ELSE z.jml])]_vars
BigThm_Graph == [][zlast'.q = "graph" =>
   LET z == zlast' IN
   /\ z.dot.nodes = z.def.nodes
   /\ SelectSeq(z.dot.edges, LAMBDA e: e[2] \notin z.st) = z.def.edges
   /\ z.mermaid = z.def]_vars
=============================================================================

------------------------------- MODULE MC_Ops -------------------------------
(***************************************************************************)
(* Model-checking configuration M1: every forest over Node reachable by    *)
(* the mutators, every call, every fault plan -- one TLC transition per    *)
(* public call (big-step: Run).  Checks the as-built interpreter against   *)
(* the property layer and emits every transition as a JSON test vector.    *)
(***************************************************************************)
EXTENDS NodeOpsProps, TLC, Json

CONSTANTS Node,        \* model values (symmetric)
          MaxLen,      \* bound on the length of children sequences
          FaultMode,   \* 0 none | 1 +once{k} | 2 +persist(all nodes) | 3 +once{k1,k2} | 4 +persist(single nodes)
          Strict,      \* TRUE: NodeMixin-based kinds, FALSE: LightNodeMixin
          Asrt,        \* ANYTREE_ASSERTIONS=1 ?
          WithNonNode, \* enumerate non-node / non-iterable arguments (strict kinds)
          WithCtor,    \* enumerate constructor calls
          CheckIndep   \* additionally check independence from Strict and Asrt

VARIABLES parent, children, zlast
vars == <<parent, children, zlast>>
View == <<parent, children>>
Sym == Permutations(Node)

Args == IF WithNonNode /\ Strict THEN Node \cup {NonNode} ELSE Node
SeqsOver(S, k) == UNION {[1..j -> S] : j \in 0..k}

Calls(par, ch) ==
  {FrSP(n, v) : n \in Node, v \in Args \cup {Nil}}
  \cup {FrDC(n) : n \in Node}
  \cup {FrSC(n, xs) : n \in Node, xs \in SeqsOver(Args, MaxLen)}
  \cup (IF WithNonNode THEN {FrSCBad(n) : n \in Node} ELSE {})
  \cup (IF WithCtor
        THEN UNION {{FrCT(n, v, xs) : v \in (Args \ {n}) \cup {Nil}, xs \in SeqsOver(Args \ {n}, MaxLen)}
                    : n \in {m \in Node : par[m] = Nil /\ ch[m] = <<>>}}
        ELSE {})

PersistKinds == {{k} : k \in HookKinds} \cup {{"pre_detach", "pre_attach"}}

Plans(par, ch, fr) ==
  LET base == Run(Begin(par, ch, fr, NoFault, Strict, Asrt)) IN
  {NoFault}
  \cup (IF FaultMode >= 1 THEN {Once({k}) : k \in 1..base.hc} ELSE {})
  \cup (IF FaultMode >= 2 THEN {Persist(K, Node) : K \in PersistKinds} ELSE {})
  \cup (IF FaultMode >= 3
        THEN UNION {{Once({k1, k2}) : k2 \in (k1+1)..Run(Begin(par, ch, fr, Once({k1}), Strict, Asrt)).hc}
                    : k1 \in 1..base.hc}
        ELSE {})
  \cup (IF FaultMode >= 4 THEN {Persist(K, {m}) : K \in PersistKinds, m \in Node} ELSE {})

CallKind(pc) == CASE pc = "sp_entry" -> "sp" [] pc = "dc_entry" -> "dc"
                  [] pc = "sc_entry" -> "sc" [] pc = "ct_entry" -> "ct"

ObsOf(par, ch, fr, fp, r) ==
  [k |-> CallKind(fr.pc), n |-> fr.n, v |-> fr.v, xs |-> fr.xs, bad |-> fr.bad,
   plan |-> fp, strict |-> Strict, asrt |-> Asrt,
   prepar |-> par, prech |-> ch, postpar |-> r.par, postch |-> r.ch,
   exc |-> r.exc, src |-> r.src, log |-> r.log, marks |-> r.marks, pcs |-> r.pcs]

Init == /\ parent = [n \in Node |-> Nil]
        /\ children = [n \in Node |-> <<>>]
        /\ zlast = [k |-> "init"]

Next == \E fr \in Calls(parent, children): \E fp \in Plans(parent, children, fr):
          \E r \in {Run(Begin(parent, children, fr, fp, Strict, Asrt))}:
            /\ parent' = r.par /\ children' = r.ch
            /\ zlast' = ObsOf(parent, children, fr, fp, r)

(***************************************************************************)
(* State invariants.                                                       *)
(***************************************************************************)
Inv_C01 == WellFormed(parent, children)

(***************************************************************************)
(* Action properties: the as-built interpreter against the property layer. *)
(***************************************************************************)
Thm_C01 == [][C01_OK(zlast')]_vars
Thm_C02 == [][C02_OK(zlast')]_vars
\* C03 holds on the as-built model except where a *named deviation* was exercised
Thm_C03 == [][C03_OK(zlast') \/ zlast'.marks # {}]_vars
Thm_C16 == [][C16_OK(zlast')]_vars
\* the interpreter terminates with an empty stack and a known outcome
Outcomes == {Nil, "TreeError", "LoopError", "TypeError", "HookFault", "RecursionError"}
Thm_Outcome == [][zlast'.exc \in Outcomes]_vars
\* unbounded recursion happens only under persistent plans
Thm_Recursion == [][zlast'.exc = "RecursionError" => zlast'.plan.mode = "persist"]_vars
\* C18 in the model: with node arguments the run does not depend on `strict`; nor on the assertion switch
Thm_Indep == [][CheckIndep =>
                  LET o == zlast'
                      fr == CASE o.k = "sp" -> FrSP(o.n, o.v) [] o.k = "dc" -> FrDC(o.n)
                              [] o.k = "sc" -> (IF o.bad THEN FrSCBad(o.n) ELSE FrSC(o.n, o.xs))
                              [] o.k = "ct" -> FrCT(o.n, o.v, o.xs)
                      nodeargs == o.v # NonNode /\ ~InSeq(o.xs, NonNode)
                  IN \A s \in BOOLEAN, a \in BOOLEAN:
                       (nodeargs \/ s = Strict) =>
                       \E r \in {Run(Begin(o.prepar, o.prech, fr, o.plan, s, a))}:
                          r.par = o.postpar /\ r.ch = o.postch /\ r.exc = o.exc /\ r.log = o.log]_vars

(***************************************************************************)
(* Emission of test vectors: one JSON line per transition.                 *)
(***************************************************************************)
\* (hook snapshots are emitted as the children function only: every model state is well-formed --
\*  Thm_C01 -- so the parent function is its inverse)
Compact(o) == [o EXCEPT !.log = [i \in 1..Len(o.log) |->
                 [h |-> o.log[i].h, n |-> o.log[i].n, a |-> o.log[i].a, r |-> o.log[i].r, cs |-> o.log[i].ch]]]
Emit == PrintT(ToJson([o |-> Compact(zlast'), c03 |-> C03_OK(zlast'), c03a |-> C03_Applies(zlast'),
                       c02 |-> C02_OK(zlast'), c16 |-> C16_OK(zlast'), c01 |-> C01_OK(zlast')]))
=============================================================================

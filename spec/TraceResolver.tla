---------------------------- MODULE TraceResolver ----------------------------
(***************************************************************************)
(* Code -> spec / judge for Resolver.get and Resolver.glob.                *)
(* One JSON object per line:                                               *)
(*  get : [id, q, par, ch, names, s, cs, ic, relax, res]                   *)
(*  glob: [id, q, par, ch, names, s, cs, ic, runs]   runs = the (strict,   *)
(*        relaxed) results observed in several states of the shared        *)
(*        pattern cache -- they must all satisfy the predicates and agree. *)
(***************************************************************************)
EXTENDS Resolver, TLC, Json, IOUtils

VARIABLE l
Trace == ndJsonDeserialize(IOEnv.TRACE_FILE)

C07_OK(e) == e.res = Get(e.par, e.ch, e.names, e.s, e.cs, e.ic, e.relax)
C08_OK(e) ==
  /\ \A i \in 1..Len(e.runs):
        /\ RelaxedOK(e.par, e.ch, e.names, e.s, e.cs, e.ic, e.runs[i].relaxed)
        /\ (SibUnique(e.ch, e.names, e.ic) =>
               StrictOK(e.par, e.ch, e.names, e.s, e.cs, e.ic, e.runs[i].strict, e.runs[i].relaxed))
  \* the result never depends on earlier calls (cache states)
  /\ \A i, j \in 1..Len(e.runs): e.runs[i] = e.runs[j]
Violated(e) == CASE e.q = "get" -> (IF C07_OK(e) THEN {} ELSE {"C07"})
                 [] e.q = "glob" -> (IF C08_OK(e) THEN {} ELSE {"C08"})
TInit == l = 1
TNext == l <= Len(Trace) /\ PrintT(ToString(<<"J", l, Trace[l].id, Violated(Trace[l])>>)) /\ l' = l + 1
Accepted == TLCGet("stats").diameter - 1 = Len(Trace)
=============================================================================

----------------------------- MODULE TraceOpsRe -----------------------------
(***************************************************************************)
(* The judge for observations of calls with a re-entrant hook (fault plans *)
(* of mode "act"): per observation of the real code TLC evaluates          *)
(* NodeOpsProps!ReViolated and says whether the as-built interpreter       *)
(* explains it.  A call whose acting hook was never reached is an ordinary *)
(* fault-free call and is judged by the ordinary predicates.               *)
(***************************************************************************)
EXTENDS NodeOpsProps, TLC, Json, IOUtils

VARIABLES l
Trace == ndJsonDeserialize(IOEnv.TRACE_FILE)

PlanOf(e) == Acting(e.plan.ak, e.plan.am, e.plan.av, e.plan.akind, e.plan.ar)
ObsOf(e) == [e EXCEPT !.plan = PlanOf(e)]
FrameOf(e) == CASE e.k = "sp" -> FrSP(e.n, e.v)
                [] e.k = "dc" -> FrDC(e.n)
                [] e.k = "sc" -> FrSC(e.n, e.xs)

PreOK(e) == /\ WellFormed(e.prepar, e.prech) /\ e.n \in DOMAIN e.prepar
            /\ e.v \in DOMAIN e.prepar \cup {Nil}
            /\ \A i \in 1..Len(e.xs): e.xs[i] \in DOMAIN e.prepar
            /\ e.plan.am \in DOMAIN e.prepar /\ e.plan.av \in DOMAIN e.prepar \cup {Nil}
            /\ DOMAIN e.postpar = DOMAIN e.prepar /\ DOMAIN e.postch = DOMAIN e.prech

LogEq(ml, ol) == /\ Len(ml) = Len(ol)
                 /\ \A i \in 1..Len(ml): /\ ml[i].h = ol[i].h /\ ml[i].n = ol[i].n /\ ml[i].a = ol[i].a
                                         /\ ml[i].par = ol[i].par /\ ml[i].ch = ol[i].ch

Explained(e) ==
  PreOK(e) /\ \E r \in {Run(Begin(e.prepar, e.prech, FrameOf(e), PlanOf(e), e.strict, e.asrt))}:
     /\ r.exc = e.exc /\ r.par = e.postpar /\ r.ch = e.postch /\ LogEq(r.log, e.log)

Violated(e) ==
  LET o == ObsOf(e) IN
  IF ~PreOK(e) THEN {}
  ELSE IF Acted(o) THEN ReViolated(o)
  ELSE \* the acting hook was never reached: a fault-free call
       LET p == [o EXCEPT !.plan = NoFault] IN
       (IF ~C01_OK(p) THEN {"C01"} ELSE {}) \cup (IF ~C02_OK(p) THEN {"C02"} ELSE {})
       \cup (IF ~C03_OK(p) THEN {"C03"} ELSE {}) \cup (IF ~C16_OK(p) THEN {"C16"} ELSE {})

TInit == l = 1
TNext == /\ l <= Len(Trace)
         /\ LET e == Trace[l] IN
              PrintT(ToString(<<"J", l, e.id, Violated(e) \cup (IF Explained(e) THEN {"explained"} ELSE {})>>))
         /\ l' = l + 1
TSpec == TInit /\ [][TNext]_l
Accepted == TLCGet("stats").diameter - 1 = Len(Trace)
=============================================================================

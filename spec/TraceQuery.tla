----------------------------- MODULE TraceQuery -----------------------------
(***************************************************************************)
(* Code -> spec for the read-only API, and the judge for observations that *)
(* differ from the emitted definitions.  One JSON object per line:         *)
(*   [id, q, par, ch, <arguments>, <observed results>]                     *)
(* TLC evaluates, per line, the property predicates that apply to the kind *)
(* of query and prints the set of violated properties.                     *)
(*                                                                         *)
(* Where a property is stated relative to another API (C06: "in the order  *)
(* of its unrestricted traversal"; C14: "exactly what PreOrderIter yields  *)
(* for the same arguments") the predicate is relative to the *observed*    *)
(* result of that API, so that a defect is attributed to the property it   *)
(* actually breaks.                                                        *)
(***************************************************************************)
EXTENDS IterAlgo, TLC, Json, IOUtils

VARIABLE l
Trace == ndJsonDeserialize(IOEnv.TRACE_FILE)

AllNodes(e) == DOMAIN e.par
S(x) == SetOf(x)          \* JSON arrays that stand for sets

JNav(e) == IF e.res = Nav(e.par, e.ch, e.n) /\ e.ipr = Rev(PathTo(e.par, e.n)) THEN {} ELSE {"C04"}
JCommon(e) == IF e.res = CommonAncestors(e.par, e.ns) THEN {} ELSE {"C04"}
JWalk(e) == IF e.res = Walk(e.par, e.s, e.e) THEN {} ELSE {"C15"}

C05_OK(e) == e.hasbase /\ e.base = AllIters(e.par, e.ch, e.s, AllNodes(e), {}, NoMax)
C06_OK(e) ==
  e.hasres /\
  (e.hasbase =>
    LET adm == Admitted(e.par, e.ch, e.s, S(e.st), e.ml)
        fl == S(e.fl)
        nlev == Cardinality({RelDepth(e.par, e.s, m) : m \in adm})
        flatok == SetOf(e.base.pre) = SetOf(PreOrder(e.ch, e.s))    \* the unrestricted traversals are usable as yardstick
    IN flatok =>
       /\ e.res.pre = Restrict(e.base.pre, adm, fl)
       /\ e.res.post = Restrict(e.base.post, adm, fl)
       /\ e.res.level = Restrict(e.base.level, adm, fl)
       /\ Len(e.res.groups) = nlev /\ Len(e.res.zigzag) = nlev
       /\ (nlev <= Len(e.base.groups) => \A d \in 1..nlev: e.res.groups[d] = Restrict(e.base.groups[d], adm, fl))
       /\ (nlev <= Len(e.base.zigzag) => \A d \in 1..nlev: e.res.zigzag[d] = Restrict(e.base.zigzag[d], adm, fl)))
JIters(e) == (IF C05_OK(e) THEN {} ELSE {"C05"}) \cup (IF C06_OK(e) THEN {} ELSE {"C06"})

\* search results relative to what PreOrderIter yielded for the same arguments (e.iter)
CountOK(r, want, got) == r.err = "CountError" /\ {want, got} \subseteq S(r.nums)
FindAllOK(r, it, minc, maxc) ==
  IF minc # NoBound /\ Len(it) < minc THEN CountOK(r, minc, Len(it))
  ELSE IF maxc # NoBound /\ Len(it) > maxc THEN CountOK(r, maxc, Len(it))
  ELSE r.err = "none" /\ r.val = it
FindOK(r, it) == IF Len(it) > 1 THEN CountOK(r, 1, Len(it)) ELSE r.err = "none" /\ r.val = it
JFindAll(e) == IF \A i \in 1..Len(e.results): FindAllOK(e.results[i], e.iter, e.minc, e.maxc) THEN {} ELSE {"C14"}
JFind(e) == IF \A i \in 1..Len(e.results): FindOK(e.results[i], e.iter) THEN {} ELSE {"C14"}
JByAttr(e) == IF /\ \A i \in 1..Len(e.allresults): FindAllOK(e.allresults[i], e.iter, e.minc, e.maxc)
                 /\ \A i \in 1..Len(e.oneresults): FindOK(e.oneresults[i], e.iter)
              THEN {} ELSE {"C14"}

Violated(e) == CASE e.q = "nav" -> JNav(e) [] e.q = "common" -> JCommon(e) [] e.q = "walk" -> JWalk(e)
                 [] e.q = "iters" -> JIters(e) [] e.q = "findall" -> JFindAll(e) [] e.q = "find" -> JFind(e)
                 [] e.q = "byattr" -> JByAttr(e)

TInit == l = 1
TNext == l <= Len(Trace) /\ PrintT(ToString(<<"J", l, Trace[l].id, Violated(Trace[l])>>)) /\ l' = l + 1
Accepted == TLCGet("stats").diameter - 1 = Len(Trace)
=============================================================================

------------------------------ MODULE MC_Export ------------------------------
(***************************************************************************)
(* Model-checking configuration M5: exporters / importers on every tree    *)
(* shape up to MaxN nodes.                                                 *)
(*  "dict"  : DictExporter options x attribute schemes, and the import of  *)
(*            every exported dictionary (C10, C11 uses the same vectors)   *)
(*  "graph" : DOT / Mermaid for every start node, stop set, filtered-out   *)
(*            set and maxlevel (C12, C13)                                  *)
(***************************************************************************)
EXTENDS Export, TLC, Json

CONSTANTS MaxN, Queries, MaxStop, MaxHide

VARIABLES k, p, zlast
vars == <<k, p, zlast>>
View == <<k, p>>

RECURSIVE RightPath(_, _)
RightPath(q, i) == IF i = 0 THEN {} ELSE {i} \cup RightPath(q, q[i])
ValidTree(n, q) == q[1] = 0 /\ \A i \in 2..n: q[i] >= 1 /\ q[i] < i /\ q[i] \in RightPath(q, i - 1)

Nodes == 1..k
Par == p
Ch == [i \in Nodes |-> SelectSeq([j \in 1..k |-> j], LAMBDA j: p[j] = i)]
Sub(s) == SetOf(PreOrder(Ch, s))
SubsetsUpTo(S, m) == {T \in SUBSET S : Cardinality(T) <= m}

\* attribute schemes: sequences of <<key, value token>> per node
AttrScheme(sc) ==
  CASE sc = 1 -> [i \in Nodes |-> << <<"name", "n" \o ToString(i)>>, <<"b", "x">>, <<"a", "v" \o ToString(i)>>, <<"_p", "s">> >>]
    [] sc = 2 -> [i \in Nodes |-> IF i % 2 = 0 THEN <<>> ELSE << <<"a", "v" \o ToString(i)>> >>]
    [] sc = 3 -> [i \in Nodes |-> << <<"b", "same">>, <<"name", "n" \o ToString(i)>>, <<"a", "same">> >>]
    [] sc = 4 -> [i \in Nodes |-> << <<"a", "ref">>, <<"b", "v" \o ToString(i)>> >>]     \* "ref": a value that is itself a tree node
KeyFn == [i \in Nodes |-> (i * 7) % 11]
DictOpts(s) == {[attriter |-> ai, ci |-> ci, ml |-> ml] :
                  ai \in {"none", "sorted", "public"},
                  ci \in {[kind |-> kd, hide |-> {}, key |-> KeyFn] : kd \in {"list", "reversed"}}
                         \cup {[kind |-> "filter", hide |-> {h}, key |-> KeyFn] : h \in Sub(s) \ {s}},
                  ml \in {NoMax, 0, 1, 2, 3}}

Init == /\ k \in 1..MaxN
        /\ p \in [1..k -> 0..(k - 1)]
        /\ zlast = [q |-> "init"]
        /\ ValidTree(k, p)

QDict == "dict" \in Queries /\ \E s \in Nodes, sc \in {1, 2, 3, 4}: \E o \in DictOpts(s), jml \in {NoMax, 0, 2}:
           \E d \in {Export(Ch, AttrScheme(sc), s, o)}:
           zlast' = [q |-> "dict", s |-> s, attrs |-> AttrScheme(sc), o |-> o, d |-> d, imp |-> Import(d),
                     jml |-> jml, jd |-> JsonExport(Ch, AttrScheme(sc), s, o, jml),
                     jdd |-> JsonExport(Ch, AttrScheme(sc), s, DefaultOpts, jml)]      \* no dictexporter supplied

\* names with quotes, backslashes (also adjacent ones), a space, a non-ASCII character (E stands for e-acute) and a collision
GraphNames == << <<"r">>, <<"\\", "\"", "x">>, <<"a", "\"", "\"">>, <<"E", " ", "\\", "\\", "b">>, <<"r">>, <<"a", "\\", "b">>, <<"\"">> >>
QGraph == "graph" \in Queries /\ \E s \in Nodes: \E st \in SubsetsUpTo(Sub(s), MaxStop), hide \in SubsetsUpTo(Sub(s), MaxHide), ml \in {NoMax, 0, 1, 2, 3}:
           zlast' = [q |-> "graph", s |-> s, st |-> st, fl |-> Nodes \ hide, ml |-> ml,
                     def |-> GraphDef(Par, Ch, s, Nodes \ hide, st, ml),
                     dot |-> ADot(Par, Ch, s, Nodes \ hide, st, ml),
                     mermaid |-> AMermaid(Par, Ch, s, Nodes \ hide, st, ml),
                     names |-> [i \in Nodes |-> GraphNames[i]],
                     esc |-> [i \in Nodes |-> Esc(GraphNames[i])]]

Next == UNCHANGED <<k, p>> /\ (QDict \/ QGraph)

(***************************************************************************)
(* C10: import and export are inverse to each other.                       *)
(***************************************************************************)
RECURSIVE Strip(_)          \* a dictionary is equal "up to empty children lists" by construction (no entry = empty)
Strip(d) == d
Thm_Dict == [][zlast'.q = "dict" =>
   LET z == zlast' t == z.imp IN
   \* export(import(d)) = d
   /\ Export(ChOfArray(t.p), t.attrs, 1, DefaultOpts) = z.d
   \* import(export(t)) is t itself when nothing is cut, reordered or filtered and the whole tree is exported
   /\ (z.s = 1 /\ z.o = [DefaultOpts EXCEPT !.ci.key = KeyFn]) => (t.p = p /\ t.attrs = z.attrs)
   \* the flat form of a dictionary (what the judge is given) denotes the same tree
   /\ ImportFlat(FlatOf(z.d, 0)) = t
   \* the imported tree always has the shape of the exported (sub)tree: as many nodes as dictionaries
   /\ Len(t.p) = Len(t.attrs) /\ t.p[1] = 0
   \* maxlevel: the start node is always exported; nothing at relative depth >= maxlevel
   /\ \A i \in 1..Len(t.p): Depth(t.p, i) < (IF z.o.ml = NoMax THEN NoMax ELSE IF z.o.ml < 1 THEN 1 ELSE z.o.ml)
   \* C11: the JSON exporter's maxlevel overrides the dictionary exporter's
   /\ z.jd = Export(Ch, z.attrs, z.s, [z.o EXCEPT !.ml = IF z.jml = NoMax THEN z.o.ml ELSE z.jml])]_vars

(***************************************************************************)
(* C12 / C13: as-built two-pass generation against the definition.         *)
(***************************************************************************)
Thm_Graph == [][zlast'.q = "graph" =>
   LET z == zlast' IN
   /\ z.dot.nodes = z.def.nodes
   \* DOT: exactly the named deviation stop_edge (edges into a stopped child) separates as-built from the definition
   /\ SelectSeq(z.dot.edges, LAMBDA e: e[2] \notin z.st) = z.def.edges
   /\ z.mermaid = z.def
   \* no edge of the definition names an undeclared node; no admitted link is missing
   /\ \A i \in 1..Len(z.def.edges): InSeq(z.def.nodes, z.def.edges[i][1]) /\ InSeq(z.def.nodes, z.def.edges[i][2])
   /\ \A a \in SetOf(z.def.nodes), b \in SetOf(z.def.nodes): Par[b] = a => InSeq(z.def.edges, <<a, b>>)]_vars

\* escaping is injective and invertible (checked once, on all strings up to length 4 over the critical alphabet)
EscAlphabet == {"a", "\"", "\\", " "}
Lem_Esc == (k = 1) => \A n \in 0..4: \A s \in [1..n -> EscAlphabet]:
              /\ UnEsc(Esc(s)) = s
              /\ \A i \in 1..Len(Esc(s)): Esc(s)[i] = "\"" => (i > 1 /\ Esc(s)[i - 1] = "\\")

Emit == PrintT(ToJson([k |-> k, p |-> p, z |-> zlast']))
=============================================================================

---------------------------- MODULE MC_RenderBig ----------------------------
(***************************************************************************)
(* M4 beyond the exhaustive bounds: RenderTree on large random trees       *)
(* (BigMin..BigMax nodes; uniform, deep, wide, bushy, star, chain: depths  *)
(* of ten and more levels, nodes with dozens of children) with drawn start *)
(* node, childiter, maxlevel and line counts.  As-built = definition       *)
(* (Thm_Rows) is checked on every transition; every transition is emitted. *)
(***************************************************************************)
EXTENDS MC_Render, Randomization

CONSTANTS BigMin, BigMax, Instances, PerShape

Pick(T, salt) == RandomElement({<<x, salt>> : x \in T})[1]
Weighted(q, i, style) ==
  LET rp == RightPath(q, i - 1)
      w(c) == CASE style = 1 -> (IF c = i - 1 THEN 6 ELSE 1)
                [] style = 2 -> (IF c = q[i - 1] \/ (q[i - 1] = 0 /\ c = i - 1) THEN 8 ELSE 1)
                [] style = 3 -> (IF c = i - 1 \/ c = q[i - 1] THEN 3 ELSE 1)
                [] style = 4 -> (IF c = 1 THEN 8 ELSE 0)
                [] style = 5 -> (IF c = i - 1 THEN 8 ELSE 0)
                [] OTHER -> 1
  IN {t \in (rp \X (1..8)) : t[2] <= w(t[1])}
RECURSIVE Grow(_, _, _, _, _)
Grow(q, i, n, style, salt) ==
  IF i > n THEN q ELSE Grow([q EXCEPT ![i] = Pick(Weighted(q, i, style), <<salt, i>>)[1]], i + 1, n, style, salt)

BigInit == \E j \in 1..Instances:
             /\ k = IF j % 6 \in {4, 5} THEN BigMax - ((j \div 6) % 10) ELSE Pick(BigMin..BigMax, j)
             /\ p = Grow([i \in 1..k |-> 0], 2, k, j % 6, j)
             /\ zlast = [q |-> "init"]

Roots == {n \in Nodes : p[n] = 0}
\* sort keys without ties (the definition of 'sorted' in module Render assumes distinct keys)
BigKey == [i \in Nodes |-> (i * 7) % 311]
BigNext ==
  /\ UNCHANGED <<k, p>>
  /\ \E i \in 1..PerShape: \E s \in {IF Pick(1..2, <<i, 0>>) = 1 THEN Pick(Roots, <<i, 1>>) ELSE Pick(Nodes, <<i, 1, k>>)}:
     \E kd \in {Pick({"list", "reversed", "sorted", "filter"}, <<i, 2>>)}:
     \E hide \in {IF kd = "filter" /\ Sub(s) # {s}
                  THEN {t[1] : t \in RandomSubset(Pick(1..(IF Cardinality(Sub(s)) > 3 THEN 3 ELSE Cardinality(Sub(s)) - 1), <<i, 3>>),
                                                  {<<x, i>> : x \in Sub(s) \ {s}})}
                  ELSE {}}:
     \E ml \in {LET h == Height(Ch, s) IN
                IF Pick(1..2, <<i, 4>>) = 1 THEN NoMax ELSE Pick({0, 1, 2, 3, 5, 8, 9, 10, 11, 50} \cup {h - 1, h, h + 1}, <<i, 5>>)}:
     \E nl \in {Pick(LineCounts, <<i, 6>>)}:
     \E ci \in {[kind |-> IF kd = "filter" /\ hide = {} THEN "list" ELSE kd, hide |-> hide, key |-> BigKey]}:
     \E rows \in {RowsDef(Ch, s, ci, ml)}:
       zlast' = [q |-> "render", s |-> s, ci |-> ci, ml |-> ml, nl |-> nl, rows |-> rows, text |-> TextOf(rows, nl),
                 path |-> PathTo(Par, s)]
=============================================================================

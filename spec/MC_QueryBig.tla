---------------------------- MODULE MC_QueryBig ----------------------------
(***************************************************************************)
(* M2 beyond the exhaustive bounds: the same definitions (module Tree),    *)
(* the same theorem (as-built iterators = definition) and the same lemmas, *)
(* on *large random* ordered trees and forests -- BigMin..BigMax nodes,    *)
(* drawn in six styles (uniform, deep, wide, bushy, star, chain) -- with randomly      *)
(* drawn queries.  Instances initial states, PerShape query transitions    *)
(* from each; every transition is emitted as a vector and replayed like    *)
(* the exhaustive ones.  What this adds to MC_Query is scale: two-digit    *)
(* node counts and sibling positions, depths beyond five, stop / filter    *)
(* sets and level limits deep inside a tree, long walks.                   *)
(* Every draw mentions a bound variable: TLC evaluates closed constant     *)
(* expressions once.                                                       *)
(***************************************************************************)
EXTENDS MC_Query, Randomization

CONSTANTS BigMin, BigMax, Instances, PerShape

Pick(S, salt) == RandomElement({<<x, salt>> : x \in S})[1]
PickSub(S, m, salt) == IF S = {} THEN {} ELSE
                       RandomSubset(Pick(0..(IF Cardinality(S) < m THEN Cardinality(S) ELSE m), salt), {<<x, salt>> : x \in S})
Fst(T) == {t[1] : t \in T}

\* candidates for the parent of node i (pre-order numbering: a node of the right-most path of the tree built so far,
\* or 0 for a new root), with weights according to the style of the instance
Weighted(q, i, style, forest) ==
  LET rp == RightPath(q, i - 1)
      w(c) == CASE style = 1 -> (IF c = i - 1 THEN 6 ELSE 1)                       \* deep: mostly a chain
                [] style = 2 -> (IF c = q[i - 1] \/ (q[i - 1] = 0 /\ c = i - 1) THEN 8 ELSE 1)   \* wide: mostly a sibling of i-1
                [] style = 3 -> (IF c = i - 1 \/ c = q[i - 1] THEN 3 ELSE 1)       \* bushy
                [] style = 4 -> (IF c = 1 THEN 8 ELSE 0)                            \* a star: hundreds of siblings
                [] style = 5 -> (IF c = i - 1 THEN 8 ELSE 0)                        \* a chain
                [] OTHER -> 1
  IN {t \in (rp \X (1..8)) : t[2] <= w(t[1])} \cup (IF forest THEN {<<0, 1>>} ELSE {})
RECURSIVE Grow(_, _, _, _, _, _)
Grow(q, i, n, style, forest, salt) ==
  IF i > n THEN q
  ELSE Grow([q EXCEPT ![i] = Pick(Weighted(q, i, style, forest), <<salt, i>>)[1]], i + 1, n, style, forest, salt)

BigInit == \E j \in 1..Instances:
             \* (stars and chains at full size: hundreds of siblings, hundreds of levels)
             /\ k = IF j % 6 \in {4, 5} THEN BigMax - ((j \div 6) % 10) ELSE Pick(BigMin..BigMax, j)
             /\ p = Grow([i \in 1..k |-> 0], 2, k, j % 6, ~TreesOnly /\ j % 5 = 0, j)
             /\ zlast = [q |-> "init"]

\* the nodes where boundaries are: roots, first and last children, leaves at the greatest depth
Interesting == LET c == Ch
                   dep == [n \in Nodes |-> Depth(Par, n)]
                   md == MaxOf({dep[n] : n \in Nodes})
                   deepest == CHOOSE n \in Nodes : dep[n] = md /\ \A m \in Nodes : dep[m] = md => n <= m
               IN {n \in Nodes : \/ p[n] # 0 /\ Len(c[p[n]]) > 1 /\ c[p[n]][1] = n              \* first and last of several children
                                 \/ p[n] # 0 /\ Len(c[p[n]]) > 1 /\ c[p[n]][Len(c[p[n]])] = n
                                 \/ n = deepest}
Roots == {n \in Nodes : p[n] = 0}
\* the first two queries of every instance start at the first root: together with BigLevels this guarantees that an
\* instance more than 257 levels deep is asked with a level limit of 257 and of 258 whatever the draws are
PickNode(salt) == CASE salt[1] <= 2 /\ salt[2] = 1 -> 1
                    [] Pick(1..3, <<salt, 0>>) = 1 -> Pick(Roots, salt)
                    [] Pick(1..2, <<salt, 1>>) = 1 -> Pick(Interesting, salt)
                    [] OTHER -> Pick(Nodes, salt)
\* level limits: none, small ones, the ones around the height of the subtree, and -- where the subtree is that deep --
\* the ones around 256
BigLevels(s, salt) == LET h == Height(Ch, s) IN
                      \* (the first two queries of an instance are anchored rather than drawn: see Anchor)
                      CASE salt[1] <= 2 /\ h > 257 -> 256 + salt[1]
                        [] Pick(1..3, <<salt, 0>>) = 1 -> NoMax
                        [] h > 257 /\ Pick(1..4, <<salt, 1>>) > 1 -> Pick({256, 257, 258, 259, h - 1}, salt)
                        [] OTHER -> Pick({0, 1, 2, 3, 4, 5, 6, 7, 9, 10, 11, 12, 50, 256, 257} \cup {h - 1, h, h + 1}, salt)
BigBound(salt) == Pick({NoBound, NoBound, 0, 1, 2, 3, 5, 9, 10, 11, k - 1, k, k + 1}, salt)

BigNext ==
  /\ UNCHANGED <<k, p>>
  \* (drawn values are bound by \E over a singleton: a definition introduced by L-E-T would be re-evaluated -- re-drawn -- at every use)
  /\ \E i \in 1..PerShape: \E kind \in {Pick(Queries, <<i, k>>)}, s \in {PickNode(<<i, 1, k>>)}, e \in {PickNode(<<i, 2, k>>)}:
       CASE kind = "nav" -> zlast' = [q |-> "nav", n |-> s, res |-> Nav(Par, Ch, s)]
         [] kind = "common" ->
              \E ns \in {[x \in 1..Pick(0..4, <<i, 3>>) |-> Pick(Nodes, <<i, 4, x>>)]}:
              zlast' = [q |-> "common", ns |-> ns, res |-> CommonAncestors(Par, ns)]
         [] kind = "walk" -> zlast' = [q |-> "walk", s |-> s, e |-> e, res |-> Walk(Par, s, e)]
         [] kind = "iters" ->
              \E st \in {IF OnlyNoMax \/ i <= 2 THEN {} ELSE Fst(PickSub(Sub(s), 3, <<i, 5>>))},
                 hide \in {IF OnlyNoMax \/ i <= 2 THEN {} ELSE Fst(PickSub(Sub(s), 4, <<i, 6>>))},
                 ml \in {IF OnlyNoMax THEN NoMax ELSE BigLevels(s, <<i, 7>>)}:
              zlast' = [q |-> "iters", s |-> s, st |-> st, fl |-> Nodes \ hide, ml |-> ml,
                        res |-> AllIters(Par, Ch, s, Nodes \ hide, st, ml)]
         [] kind = "findall" ->
              \E st \in {IF i <= 2 THEN {} ELSE Fst(PickSub(Sub(s), 2, <<i, 5>>))}, hide \in {IF i <= 2 THEN {} ELSE Fst(PickSub(Sub(s), 5, <<i, 6>>))},
                 ml \in {BigLevels(s, <<i, 7>>)}, minc \in {BigBound(<<i, 8>>)}, maxc \in {BigBound(<<i, 9>>)}:
              zlast' = [q |-> "findall", s |-> s, st |-> st, fl |-> Nodes \ hide, ml |-> ml, minc |-> minc, maxc |-> maxc,
                        res |-> FindAll(Par, Ch, s, Nodes \ hide, st, ml, minc, maxc)]
         [] kind = "find" ->
              \* find is about zero / one / several matches: the filter admits few nodes
              \E st \in {Fst(PickSub(Sub(s), 2, <<i, 5>>))}, keep \in {Fst(PickSub(Sub(s), 2, <<i, 6>>))}, ml \in {BigLevels(s, <<i, 7>>)}:
              zlast' = [q |-> "find", s |-> s, st |-> st, fl |-> keep, ml |-> ml,
                        res |-> Find(Par, Ch, s, keep, st, ml)]
         [] kind = "byattr" ->
              \E attr \in {[n \in Nodes |-> IF Pick(1..2, <<i, 12, n>>) = 1 THEN "absent" ELSE Pick({"v1", "none"}, <<i, 10, n>>)]},
                 value \in {Pick({"v1", "none"}, <<i, 11>>)}, ml \in {BigLevels(s, <<i, 7>>)},
                 minc \in {BigBound(<<i, 8>>)}, maxc \in {BigBound(<<i, 9>>)}:
              zlast' = [q |-> "byattr", s |-> s, attr |-> attr, value |-> value, ml |-> ml, minc |-> minc, maxc |-> maxc,
                        all |-> FindAll(Par, Ch, s, ByAttr(attr, value), {}, ml, minc, maxc),
                        one |-> Find(Par, Ch, s, ByAttr(attr, value), {}, ml)]
=============================================================================

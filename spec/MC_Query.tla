------------------------------ MODULE MC_Query ------------------------------
(***************************************************************************)
(* Model-checking configuration M2: the read-only API on every ordered     *)
(* forest shape with at most MaxN nodes (canonical pre-order labelling     *)
(* 1..k, Nil = 0).  States are shapes (initial states); every query with   *)
(* every argument/option combination is a stuttering transition whose      *)
(* result -- the *definition* of module Tree -- is recorded in zlast and   *)
(* emitted as a test vector.  TLC checks the as-built iterator algorithms  *)
(* against the definitions on every transition, and cross-lemmas that tie  *)
(* the definitions together on every shape.                                *)
(***************************************************************************)
EXTENDS IterAlgo, TLC, Json

CONSTANTS MaxN,       \* shapes with 1..MaxN nodes
          TreesOnly,  \* TRUE: single trees only; FALSE: forests (several roots)
          Queries,    \* subset of {"nav", "common", "iters", "walk", "findall", "find", "byattr"}
          MaxTuple,   \* commonancestors(*nodes): tuples up to this length
          MaxStop,    \* iterators: stop sets up to this size
          MaxHide,    \* iterators: filtered-out sets up to this size
          NegLevel,   \* also enumerate maxlevel = -1
          OnlyNoMax   \* iterators: maxlevel = None only (C05 configurations)

VARIABLES k, p, zlast
vars == <<k, p, zlast>>
View == <<k, p>>

RECURSIVE RightPath(_, _)
RightPath(q, i) == IF i = 0 THEN {} ELSE {i} \cup RightPath(q, q[i])
ValidShape(n, q) == /\ q[1] = 0
                    /\ \A i \in 2..n: q[i] < i /\ (q[i] \in RightPath(q, i - 1) \/ (q[i] = 0 /\ ~TreesOnly))

Nodes == 1..k
Par == p
Ch == [i \in Nodes |-> SelectSeq([j \in 1..k |-> j], LAMBDA j: p[j] = i)]
Sub(s) == SetOf(PreOrder(Ch, s))
SubsetsUpTo(S, m) == {T \in SUBSET S : Cardinality(T) <= m}
SeqsOver(S, m) == UNION {[1..j -> S] : j \in 0..m}
Levels(s) == IF OnlyNoMax THEN {NoMax}
             ELSE (0..(Height(Ch, s) + 2)) \cup {NoMax} \cup (IF NegLevel THEN {-1} ELSE {})
Bounds == {NoBound} \cup (0..(k + 1))
AttrVals == {"absent", "v1", "none"}     \* "none": the attribute exists and is None

\* (every variable is assigned before the recursive predicate: TLC overflows its stack otherwise)
Init == /\ k \in 1..MaxN
        /\ p \in [1..k -> 0..(k - 1)]
        /\ zlast = [q |-> "init"]
        /\ ValidShape(k, p)

QNav == "nav" \in Queries /\ \E n \in Nodes:
          zlast' = [q |-> "nav", n |-> n, res |-> Nav(Par, Ch, n)]
QCommon == "common" \in Queries /\ \E ns \in SeqsOver(Nodes, MaxTuple):
          zlast' = [q |-> "common", ns |-> ns, res |-> CommonAncestors(Par, ns)]
QIters == "iters" \in Queries /\ \E s \in Nodes: \E st \in SubsetsUpTo(Sub(s), MaxStop), hide \in SubsetsUpTo(Sub(s), MaxHide), ml \in Levels(s):
          zlast' = [q |-> "iters", s |-> s, st |-> st, fl |-> Nodes \ hide, ml |-> ml,
                    res |-> AllIters(Par, Ch, s, Nodes \ hide, st, ml)]
QWalk == "walk" \in Queries /\ \E s \in Nodes, e \in Nodes:
          zlast' = [q |-> "walk", s |-> s, e |-> e, res |-> Walk(Par, s, e)]
QFindAll == "findall" \in Queries /\ \E s \in Nodes: \E st \in SubsetsUpTo(Sub(s), 1), hide \in SubsetsUpTo(Sub(s), 2), ml \in {NoMax, 1, 2}:
              \E minc \in Bounds, maxc \in Bounds:
          zlast' = [q |-> "findall", s |-> s, st |-> st, fl |-> Nodes \ hide, ml |-> ml, minc |-> minc, maxc |-> maxc,
                    res |-> FindAll(Par, Ch, s, Nodes \ hide, st, ml, minc, maxc)]
QFind == "find" \in Queries /\ \E s \in Nodes: \E st \in SubsetsUpTo(Sub(s), 1), hide \in SUBSET Sub(s), ml \in {NoMax, 0, 1, 2}:
          zlast' = [q |-> "find", s |-> s, st |-> st, fl |-> Nodes \ hide, ml |-> ml,
                    res |-> Find(Par, Ch, s, Nodes \ hide, st, ml)]
QByAttr == "byattr" \in Queries /\ \E s \in Nodes: \E attr \in [Nodes -> AttrVals], value \in {"v1", "none"}, ml \in {NoMax, 1, 2}, minc \in {NoBound, 0, 1, 2}, maxc \in {NoBound, 0, 1, 2}:
          zlast' = [q |-> "byattr", s |-> s, attr |-> attr, value |-> value, ml |-> ml, minc |-> minc, maxc |-> maxc,
                    all |-> FindAll(Par, Ch, s, ByAttr(attr, value), {}, ml, minc, maxc),
                    one |-> Find(Par, Ch, s, ByAttr(attr, value), {}, ml)]

Next == UNCHANGED <<k, p>> /\ (QNav \/ QCommon \/ QIters \/ QWalk \/ QFindAll \/ QFind \/ QByAttr)

(***************************************************************************)
(* As-built = definition (C05, C06): on every iterator transition.         *)
(***************************************************************************)
Thm_Iters == [][zlast'.q = "iters" =>
                 AsBuiltIters(Ch, zlast'.s, zlast'.fl, zlast'.st, zlast'.ml) = zlast'.res]_vars

(***************************************************************************)
(* Cross-lemmas on every shape: they keep the oracle honest (they fail if  *)
(* a definition is wrong) and state consequences the properties name.      *)
(***************************************************************************)
IsPerm(s, S) == Len(s) = Cardinality(S) /\ SetOf(s) = S
Mirror == [i \in Nodes |-> Rev(Ch[i])]
Lem_Nav == \A n \in Nodes:
  /\ Size(Ch, n) = 1 + Len(Descendants(Ch, n))
  /\ Depth(Par, n) = Len(Ancestors(Par, n))
  /\ PathTo(Par, n) = Append(Ancestors(Par, n), n)
  /\ RootOf(Par, n) = PathTo(Par, n)[1] /\ Par[RootOf(Par, n)] = 0
  /\ (\A i \in 1..(Len(PathTo(Par, n)) - 1): Par[PathTo(Par, n)[i + 1]] = PathTo(Par, n)[i])
  /\ Height(Ch, n) = MaxOf({RelDepth(Par, n, m) : m \in Sub(n)})
  /\ Leaves(Ch, n) = SelectSeq(PreOrder(Ch, n), LAMBDA m: IsLeaf(Ch, m))
  /\ (IsRoot(Par, n) <=> Ancestors(Par, n) = <<>>)
  /\ (Par[n] # 0 => Len(Siblings(Par, Ch, n)) = Len(Ch[Par[n]]) - 1)
  /\ (LeftSibling(Par, Ch, n) # <<>> => RightSibling(Par, Ch, LeftSibling(Par, Ch, n)[1]) = <<n>>)
  /\ (RightSibling(Par, Ch, n) # <<>> => LeftSibling(Par, Ch, RightSibling(Par, Ch, n)[1]) = <<n>>)
  /\ CommonAncestors(Par, <<n>>) = Ancestors(Par, n)
  /\ CommonAncestors(Par, <<n, n>>) = Ancestors(Par, n)
Lem_Orders == \A s \in Nodes:
  /\ IsPerm(PreOrder(Ch, s), Sub(s)) /\ IsPerm(PostOrder(Ch, s), Sub(s)) /\ IsPerm(LevelOrder(Par, Ch, s), Sub(s))
  /\ Flat(Groups(Par, Ch, s)) = LevelOrder(Par, Ch, s)
  /\ Groups(Par, Ch, s) = GroupsDef(Par, Ch, s)
  /\ Flat([d \in 1..Len(ZigZag(Par, Ch, s)) |-> IF d % 2 = 0 THEN Rev(ZigZag(Par, Ch, s)[d]) ELSE ZigZag(Par, Ch, s)[d]]) = LevelOrder(Par, Ch, s)
  \* post-order is the mirror image of the pre-order of the mirrored tree
  /\ PostOrder(Ch, s) = Rev(PreOrder(Mirror, s))
  \* a node comes before its children in pre-order, after them in post-order; depth is monotone in level order
  /\ \A m \in Sub(s) \ {s}: /\ IndexOf(PreOrder(Ch, s), Par[m]) < IndexOf(PreOrder(Ch, s), m)
                            /\ IndexOf(PostOrder(Ch, s), Par[m]) > IndexOf(PostOrder(Ch, s), m)
  /\ \A i, j \in 1..Len(LevelOrder(Par, Ch, s)): i < j => Depth(Par, LevelOrder(Par, Ch, s)[i]) <= Depth(Par, LevelOrder(Par, Ch, s)[j])
  \* unrestricted visit = the plain order
  /\ VisitPre(Par, Ch, s, Nodes, {}, NoMax) = PreOrder(Ch, s)
  /\ VisitGroups(Par, Ch, s, Nodes, {}, NoMax) = Groups(Par, Ch, s)
Lem_Walk == \A s \in Nodes, e \in Nodes:
  LET w == Walk(Par, s, e) v == Walk(Par, e, s) IN
  /\ (w.err = "none") <=> (RootOf(Par, s) = RootOf(Par, e))
  /\ w.err = "none" =>
       /\ WalkSeq(v) = Rev(WalkSeq(w))                         \* walk(end, start) is the mirror image
       /\ ~HasDup(WalkSeq(w))                                  \* a simple path ...
       /\ Head(WalkSeq(w)) = s /\ WalkSeq(w)[Len(WalkSeq(w))] = e
       /\ \A i \in 1..(Len(WalkSeq(w)) - 1):                   \* ... along parent/child links
             Par[WalkSeq(w)[i]] = WalkSeq(w)[i + 1] \/ Par[WalkSeq(w)[i + 1]] = WalkSeq(w)[i]
       /\ \A i \in 1..Len(w.up): Par[w.up[i]] = (IF i < Len(w.up) THEN w.up[i + 1] ELSE w.common[1])
       /\ w.common[1] \in SetOf(PathTo(Par, s)) \cap SetOf(PathTo(Par, e))
       /\ CommonAncestors(Par, <<s, e>>) = SubSeq(PathTo(Par, w.common[1]), 1,
               IF w.common[1] \in {s, e} THEN Depth(Par, w.common[1]) ELSE Depth(Par, w.common[1]) + 1)

Emit == PrintT(ToJson([k |-> k, p |-> p, z |-> zlast']))
=============================================================================

------------------------------ MODULE MC_Attrs ------------------------------
(***************************************************************************)
(* Model-checking configuration M6a (C20): ordinary nodes t*, link nodes   *)
(* l* (created by the constructor action, targets: an ordinary node or     *)
(* another link), attribute writes on links and targets, structural calls  *)
(* on either.  Invariants: a link reads what its target reads; links own   *)
(* nothing; the forest stays well-formed.  Every transition is a vector.   *)
(***************************************************************************)
EXTENDS Attrs, TLC, Json

CONSTANTS Plain, Links,         \* sets of node ids (strings)
          ROPlain               \* ordinary nodes of a class with a read-only property `_bar`

VARIABLES alive, tgt, own, parent, children, zlast
vars == <<alive, tgt, own, parent, children, zlast>>
View == <<alive, tgt, own, parent, children>>

Node == Plain \cup Links
Keys == {"foo", "_bar", "name"}     \* an ordinary, an underscore-prefixed and a class-defined attribute name
Vals == {"1", "fn"}      \* "fn": a value that is callable (a function stored as an attribute)
KwSets == {<<>>, << <<"foo", "1">> >>, << <<"_bar", "fn">>, <<"foo", "fn">> >>}
Empty == [x \in {} |-> "1"]

Init == /\ alive = Plain
        /\ tgt = [n \in Node |-> Nil]
        /\ own = [n \in Node |-> IF n \in ROPlain THEN [x \in {"name", "_bar"} |-> IF x = "name" THEN n ELSE "ro"]
                                ELSE IF n \in Plain THEN [x \in {"name"} |-> n] ELSE Empty]
        /\ parent = [n \in Node |-> Nil]
        /\ children = [n \in Node |-> <<>>]
        /\ zlast = [act |-> "init"]

Obs(act, n, a1, a2, exc, al, tg, ow, pa, ch) ==
  [act |-> act, n |-> n, a1 |-> a1, a2 |-> a2, exc |-> exc,
   alive |-> al, tgt |-> [x \in al |-> tg[x]], par |-> [x \in al |-> pa[x]], ch |-> [x \in al |-> ch[x]],
   reads |-> Reads(ow, tg, al, Keys), own |-> [x \in al |-> ow[x]]]

NewLink == \E l \in Links \ alive, t \in alive, pp \in alive \cup {Nil}, kws \in KwSets:
   LET tg == [tgt EXCEPT ![l] = t]
       ok == AcceptedKws(own, tg, l, kws)
       ow == SetAll(own, tg, l, ok)
       st == IdealSP(parent, children, l, pp) IN
   IF ok = kws
   THEN /\ alive' = alive \cup {l} /\ tgt' = tg /\ own' = ow /\ parent' = st.par /\ children' = st.ch
        /\ zlast' = Obs("newlink", l, <<t, pp>>, kws, Nil, alive', tg, ow, st.par, st.ch)
   ELSE \* the target refused a keyword: the constructor raises, the link never comes to life; earlier keywords were already written
        /\ own' = ow /\ UNCHANGED <<alive, tgt, parent, children>>
        /\ zlast' = Obs("newlink", l, <<t, pp>>, kws, AttrErr, alive, tgt, ow, parent, children)
SetAttr == \E n \in alive, key \in Keys, v \in Vals:
   LET refused == Refuses(own, tgt, n, key)
       ow == IF refused THEN own ELSE Set(own, tgt, n, key, v) IN
   /\ own' = ow /\ UNCHANGED <<alive, tgt, parent, children>>
   /\ zlast' = Obs("setattr", n, <<key, v>>, <<>>, IF refused THEN AttrErr ELSE Nil, alive, tgt, ow, parent, children)
SetParent == \E n \in alive, v \in alive \cup {Nil}:
   LET r == RefuseSP(parent, n, v, TRUE)
       st == IF r = Nil THEN IdealSP(parent, children, n, v) ELSE [par |-> parent, ch |-> children] IN
   /\ parent' = st.par /\ children' = st.ch /\ UNCHANGED <<alive, tgt, own>>
   /\ zlast' = Obs("sp", n, <<v>>, <<>>, r, alive, tgt, own, st.par, st.ch)
SetChildren == \E n \in alive, x \in alive:
   LET r == RefuseSC(parent, n, <<x>>, FALSE, TRUE)
       st == IF r = Nil THEN IdealSC(parent, children, n, <<x>>) ELSE [par |-> parent, ch |-> children] IN
   /\ parent' = st.par /\ children' = st.ch /\ UNCHANGED <<alive, tgt, own>>
   /\ zlast' = Obs("sc", n, <<x>>, <<>>, r, alive, tgt, own, st.par, st.ch)
Next == NewLink \/ SetAttr \/ SetParent \/ SetChildren

Inv_Forwarding == Forwarding(own, tgt, alive, Keys)
Inv_LinksOwnNothing == LinksOwnNothing(own, tgt, alive, Keys)
Inv_Forest == WellFormed(parent, children)
\* moving / detaching / giving children to a link never changes the position or children of its target, nor vice versa:
\* a structural call changes the links of the nodes it names only (C02), whatever `tgt` says
Thm_Indep == [][zlast'.act \in {"sp", "sc"} =>
                 \A m \in alive: (m # zlast'.n /\ m \notin SetOf(zlast'.a1) /\ parent[m] # zlast'.n /\ m # parent[zlast'.n]
                                  /\ ~\E x \in SetOf(zlast'.a1): x # Nil /\ (parent[x] = m))
                                 => (parent'[m] = parent[m] /\ children'[m] = children[m])]_vars
\* a write through a link (or its constructor keywords) is readable on the target, and a write on the target through the link
Thm_Write == [][(zlast'.act = "setattr" /\ zlast'.exc = Nil) =>
                 \A m \in alive': Final(tgt', m) = Final(tgt', zlast'.n) => Get(own', tgt', m, zlast'.a1[1]) = zlast'.a1[2]]_vars

Emit == PrintT(ToJson([pre |-> [alive |-> alive, tgt |-> [x \in alive |-> tgt[x]], own |-> [x \in alive |-> own[x]],
                                par |-> [x \in alive |-> parent[x]], ch |-> [x \in alive |-> children[x]]],
                       z |-> zlast']))
=============================================================================

-------------------------------- MODULE Base --------------------------------
(***************************************************************************)
(* Shared vocabulary of the anytree specification: the "no parent" value   *)
(* and sequence helpers.  Node identities are opaque: no operator of the   *)
(* specification compares, hashes, orders or tests the truth of a node     *)
(* other than by identity (=), which is what property C17 is about.        *)
(***************************************************************************)
EXTENDS Integers, Sequences, FiniteSets

CONSTANT Nil        \* "no parent" / None

Rm(s, x) == SelectSeq(s, LAMBDA y: y # x)
InSeq(s, x) == \E i \in 1..Len(s): s[i] = x
HasDup(xs) == \E i, j \in 1..Len(xs): i < j /\ xs[i] = xs[j]
RECURSIVE Flat(_)
Flat(ss) == IF ss = <<>> THEN <<>> ELSE Head(ss) \o Flat(Tail(ss))
Rev(s) == [i \in 1..Len(s) |-> s[Len(s) + 1 - i]]
SetOf(s) == {s[i] : i \in 1..Len(s)}
IndexOf(s, x) == CHOOSE i \in 1..Len(s): s[i] = x /\ \A j \in 1..(i-1): s[j] # x
MaxOf(S) == CHOOSE x \in S: \A y \in S: y <= x
=============================================================================
